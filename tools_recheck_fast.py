#!/usr/bin/env python3
"""Parallel, in-memory re-check of every seeded change (/verif/seeded) and every behaviour-preserving
refactoring (/verif/benign): each patch is applied to the current /repo sources in memory
(hsa.variants.apply_unified_diff), all 19 checkers run on the patched program, and the verdict is what
`python -m hsa check all` would print (VIOLATION for findings that are not known findings, ANALYSIS-ERROR
for problems / lost anchors).  Refreshes the meta.json files and prints the two tables.
Nothing touches /repo.   usage: tools_recheck_fast.py [seeded|benign|all] [-j N]"""
import glob
import json
import multiprocessing as mp
import os
import sys

HERE = os.path.dirname(os.path.abspath(__file__))
sys.path.insert(0, HERE)


def run_all(args):
    name, sources = args
    from hsa.loader import Program
    from hsa.engine import Analysis
    from hsa.__main__ import registry
    from hsa.report import load_known, split_known
    from hsa.terms import AnalysisError
    viol, errs, rules_hit, lines = set(), {}, set(), []
    try:
        A = Analysis(Program(sources))
    except Exception as e:  # noqa: BLE001
        return name, [], {"*": f"{type(e).__name__}: {e}"}, [], []
    known = load_known().get("known", [])
    for prop, fn in sorted(registry().items()):
        try:
            from hsa.rules_common import rules_of
            rules = rules_of(A, prop)
            problems = A.problems()
            if problems:
                errs[prop] = problems[0]
                continue
            lost = [r.rid for r in rules if r.floor and len(r.instances) < max(1, (r.floor + 2) // 3)]
            new, _old = split_known([f for r in rules for f in r.findings], [k for k in known if k.get("property") == prop])
            if lost and not new:   # (a violation reported by other rules of the property stands, as in hsa.__main__)
                errs[prop] = f"rule(s) {lost} lost their anchors"
                continue
            if new:
                viol.add(prop)
                for f in new:
                    rules_hit.add(f.rule)
                    lines.append(f.line()[:300])
        except AnalysisError as e:
            errs[prop] = str(e)
        except Exception as e:  # noqa: BLE001
            errs[prop] = f"internal error: {type(e).__name__}: {e}"
    return name, sorted(viol), errs, sorted(rules_hit), lines[:12]


def main():
    what = sys.argv[1] if len(sys.argv) > 1 and not sys.argv[1].startswith("-") else "all"
    jobs = int(sys.argv[sys.argv.index("-j") + 1]) if "-j" in sys.argv else 16
    from hsa.loader import read_sources
    from hsa.variants import apply_unified_diff
    base = read_sources("/repo/src/hashstore")
    todo, dirs = [], {}
    for kind in ("seeded", "benign"):
        if what not in (kind, "all"):
            continue
        for d in sorted(glob.glob(os.path.join(HERE, kind, "*", ""))):
            pp = os.path.join(d, "patch.diff")
            if not os.path.exists(pp):
                continue
            src = apply_unified_diff(base, open(pp).read())
            name = f"{kind}/{os.path.basename(d.rstrip('/'))}"
            dirs[name] = d
            if src is None:
                print(f"{name}: PATCH DOES NOT APPLY to the current sources")
                continue
            todo.append((name, src))
    todo.append(("clean-tree", base))
    with mp.get_context("fork").Pool(min(jobs, len(todo))) as pool:
        res = pool.map(run_all, todo, chunksize=1)
    bad = 0
    for name, viol, errs, rules, lines in res:
        if name == "clean-tree":
            ok = not viol and not errs
            print(f"clean-tree: {'SILENT' if ok else 'NOT SILENT ' + str(viol) + ' ' + str(errs)}")
            bad += (not ok)
            continue
        d = dirs[name]
        meta = json.load(open(os.path.join(d, "meta.json")))
        if name.startswith("seeded/"):
            meta.update({"checks_reporting": viol, "analysis_errors": sorted(errs), "rule_reports": lines, "rules_reporting": rules,
                         "detected": bool(viol), "own_property_reports": meta.get("property") in viol})
            print("%-8s %-24s %-40s %s" % (meta["seed_id"], ",".join(viol) or "-", ",".join(rules), ("errors:" + ",".join(sorted(errs))) if errs else ""))
            bad += (not viol)
        else:
            silent = not viol and not errs
            meta.update({"violations": viol, "analysis_errors": sorted(errs), "silent": silent})
            print(meta.get("id", name), "SILENT" if silent else f"NOT SILENT {viol} {errs} {lines[:3]}")
            bad += (not silent)
        json.dump(meta, open(os.path.join(d, "meta.json"), "w"), indent=1)
    print("problems:", bad)
    return 1 if bad else 0


if __name__ == "__main__":
    sys.exit(main())
