#!/usr/bin/env python3
"""Evaluate a behaviour-preserving refactoring delivered in a scratch worktree: the pinned
tests must pass with it and every check must stay silent (exit 0, no VIOLATION).
usage: tools_benign.py <worktree> <id>"""
import json, os, re, shutil, subprocess, sys
wt, bid = sys.argv[1], sys.argv[2]
def sh(c, **kw): return subprocess.run(c, shell=True, capture_output=True, text=True, **kw)
env = dict(os.environ, PYTHONPATH=f"{wt}/src")
diff = sh(f"git -C {wt} diff -- src").stdout
assert diff.strip(), "no change"
open(f"{wt}/patch.diff", "w").write(diff)
t = sh("/venv/bin/python -m pytest -q -p no:cacheprovider --timeout=900 -x", env=env, cwd=wt, timeout=1800)
tests = t.stdout.strip().splitlines()[-1] if t.stdout.strip() else t.stderr[-200:]
print("tests:", tests)
assert sh("git -C /repo status --porcelain").stdout.strip() == ""
assert sh(f"git -C /repo apply {wt}/patch.diff").returncode == 0
try:
    out = sh("cd /verif && HSA_NO_CANARY=1 /venv/bin/python -m hsa check all", timeout=900).stdout
finally:
    sh("git -C /repo checkout -- . && git -C /repo clean -fdq src")
sh("cd /verif && git checkout -- evidence 2>/dev/null; rm -f /verif/evidence/*.findings.json")
viol = sorted(set(re.findall(r"VIOLATION property=(C\d+)", out)))
errs = sorted(set(re.findall(r"ANALYSIS-ERROR property=(C\d+)", out)))
lines = [l.strip() for l in out.splitlines() if re.search(r"  C\d\d\.[a-z]  ", l) or "ANALYSIS-ERROR" in l]
print("violations:", viol, "analysis errors:", errs)
for l in lines[:15]: print("   ", l[:300])
d = f"/verif/benign/{bid}"; os.makedirs(d, exist_ok=True)
shutil.copy(f"{wt}/patch.diff", d)
meta = json.load(open(f"{wt}/meta.json")) if os.path.exists(f"{wt}/meta.json") else {}
meta.update({"id": bid, "tests_with_change": tests, "violations": viol, "analysis_errors": errs, "reports": lines[:15], "silent": not viol and not errs})
json.dump(meta, open(f"{d}/meta.json", "w"), indent=1)
print("SILENT" if not viol and not errs else "NOT SILENT")
