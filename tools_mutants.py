#!/usr/bin/env python3
"""Systematic mutation campaign (not part of any registered check; a way to look for blind spots).

  tools_mutants.py gen            -> /dev/shm/mutants/<id>.json   AST-level mutants of src/hashstore/filehashstore.py
  tools_mutants.py test [-j N]    -> runs the pinned test suite on every mutant (scratch copies under /tmp/mut_*), records survivors
  tools_mutants.py check [-j N]   -> runs all 19 checkers in memory on every surviving mutant
  tools_mutants.py report         -> survivors that no check reports, grouped by function (candidates for triage)

Mutation operators: negate an `if`/`while` test; swap ==/!=, </<=, >/>=, is/is not, in/not in, and/or; delete a simple
statement (call / assignment / raise / return-with-value -> return None); break <-> continue; drop a method call wrapper
`.lower()/.strip()`; replace an int constant n by n+1; remove `not`.  Logging calls, docstrings and f-string pieces are
never mutated (they are equivalent mutants by construction)."""
import ast
import glob
import json
import multiprocessing as mp
import os
import shutil
import subprocess
import sys

HERE = os.path.dirname(os.path.abspath(__file__))
sys.path.insert(0, HERE)
FNAME = os.environ.get("MUT_FILE", "filehashstore.py")
SRC = "/repo/src/hashstore/" + FNAME
OUT = "/dev/shm/mutants" if FNAME == "filehashstore.py" else "/dev/shm/mutants_" + FNAME.split(".")[0]


def is_logging_call(n):
    if isinstance(n, ast.Expr) and isinstance(n.value, ast.Call):
        f = ast.unparse(n.value.func)
        return f.startswith("logging.") or f.startswith("self.fhs_logger.") or f == "print"
    return False


class Sites(ast.NodeVisitor):
    def __init__(self):
        self.sites = []   # (kind, node id path)
        self.func = []
        self.skip = 0

    def visit_FunctionDef(self, n):
        self.func.append(n.name)
        for st in n.body:
            self.visit(st)
        self.func.pop()

    def visit_JoinedStr(self, n):
        return

    def generic_visit(self, n):
        if is_logging_call(n):
            return
        if isinstance(n, ast.Expr) and isinstance(n.value, ast.Constant):
            return
        if isinstance(n, ast.Assign) and any(isinstance(t, ast.Name) and ("msg" in t.id or "string" in t.id) for t in n.targets):
            return
        fn = ".".join(self.func) or "<module>"
        if isinstance(n, (ast.If, ast.While)):
            self.sites.append(("negate", n, fn))
        if isinstance(n, ast.Compare) and len(n.ops) == 1:
            self.sites.append(("cmpswap", n, fn))
        if isinstance(n, ast.BoolOp):
            self.sites.append(("boolswap", n, fn))
        if isinstance(n, ast.UnaryOp) and isinstance(n.op, ast.Not):
            self.sites.append(("dropnot", n, fn))
        if isinstance(n, (ast.Break, ast.Continue)):
            self.sites.append(("brkcont", n, fn))
        if isinstance(n, ast.Expr) and isinstance(n.value, ast.Call):
            self.sites.append(("delstmt", n, fn))
        if isinstance(n, ast.Raise):
            self.sites.append(("delstmt", n, fn))
        if isinstance(n, ast.Assign) and not isinstance(n.value, ast.Constant):
            self.sites.append(("delassign", n, fn))
        if isinstance(n, ast.Return) and n.value is not None:
            self.sites.append(("retnone", n, fn))
        if isinstance(n, ast.Call) and isinstance(n.func, ast.Attribute) and n.func.attr in ("lower", "strip") and not n.args:
            self.sites.append(("dropcall", n, fn))
        if isinstance(n, ast.Constant) and isinstance(n.value, int) and not isinstance(n.value, bool):
            self.sites.append(("intplus", n, fn))
        super().generic_visit(n)


def apply(tree, kind, target):
    class T(ast.NodeTransformer):
        def visit(self, n):
            if n is target:
                if kind == "negate":
                    n.test = ast.UnaryOp(op=ast.Not(), operand=n.test)
                    return self.generic_visit(n)
                if kind == "cmpswap":
                    sw = {ast.Eq: ast.NotEq, ast.NotEq: ast.Eq, ast.Lt: ast.LtE, ast.LtE: ast.Lt, ast.Gt: ast.GtE, ast.GtE: ast.Gt,
                          ast.Is: ast.IsNot, ast.IsNot: ast.Is, ast.In: ast.NotIn, ast.NotIn: ast.In}
                    n.ops = [sw[type(n.ops[0])]()]
                    return n
                if kind == "boolswap":
                    n.op = ast.Or() if isinstance(n.op, ast.And) else ast.And()
                    return n
                if kind == "dropnot":
                    return n.operand
                if kind == "brkcont":
                    return ast.Continue() if isinstance(n, ast.Break) else ast.Break()
                if kind in ("delstmt", "delassign"):
                    return ast.Pass()
                if kind == "retnone":
                    return ast.Return(value=None)
                if kind == "dropcall":
                    return n.func.value
                if kind == "intplus":
                    return ast.Constant(value=n.value + 1)
            return self.generic_visit(n)
    return T().visit(tree)


def _simple(st):
    return isinstance(st, (ast.Expr, ast.Assign, ast.AugAssign)) and not is_logging_call(st) and not (isinstance(st, ast.Expr) and isinstance(st.value, ast.Constant)) \
        and not (isinstance(st, ast.Assign) and any(isinstance(t, ast.Name) and ("msg" in t.id or "string" in t.id) for t in st.targets))


def gen_moves():
    """block-level mutants: swap two adjacent simple statements; move the last statement of a with / try body out behind the
    block; move the first statement of a try body in front of the try; move the statement following a with/try into its body"""
    os.makedirs(OUT, exist_ok=True)
    src = open(SRC).read()
    n = max([int(os.path.basename(f)[:5]) for f in glob.glob(f"{OUT}/*.json")] + [0])

    def blocks(tree):
        out = []
        fn = []

        def walk(node, fname):
            for fld in ("body", "orelse", "finalbody"):
                b = getattr(node, fld, None)
                if isinstance(b, list) and b and isinstance(b[0], ast.stmt):
                    out.append((node, fld, fname))
                    for st in b:
                        walk(st, st.name if isinstance(st, (ast.FunctionDef, ast.ClassDef)) and isinstance(st, ast.FunctionDef) else fname)
            for h in getattr(node, "handlers", []) or []:
                out.append((h, "body", fname))
                for st in h.body:
                    walk(st, fname)
        walk(tree, "<module>")
        return out

    base_blocks = blocks(ast.parse(src))
    todo = []
    for bi, (node, fld, fname) in enumerate(base_blocks):
        b = getattr(node, fld)
        for i in range(len(b) - 1):
            if _simple(b[i]) and _simple(b[i + 1]):
                todo.append((bi, "swapadj", i))
        for i, st in enumerate(b):
            if isinstance(st, (ast.With, ast.Try)) and len(st.body) > 1 and _simple(st.body[-1]):
                todo.append((bi, "moveout", i))
            if isinstance(st, ast.Try) and len(st.body) > 1 and _simple(st.body[0]):
                todo.append((bi, "movebefore", i))
            if isinstance(st, (ast.With, ast.Try)) and i + 1 < len(b) and _simple(b[i + 1]):
                todo.append((bi, "movein", i))
    made = 0
    for bi, kind, i in todo:
        tree = ast.parse(src)
        node, fld, fname = blocks(tree)[bi]
        b = getattr(node, fld)
        before = ast.unparse(b[i])[:120]
        line = b[i].lineno
        if kind == "swapadj":
            b[i], b[i + 1] = b[i + 1], b[i]
        elif kind == "moveout":
            st = b[i].body.pop()
            b.insert(i + 1, st)
        elif kind == "movebefore":
            st = b[i].body.pop(0)
            b.insert(i, st)
        elif kind == "movein":
            st = b.pop(i + 1)
            b[i].body.append(st)
        try:
            ast.fix_missing_locations(tree)
            text = ast.unparse(tree) + "\n"
            compile(text, "m.py", "exec")
        except Exception:  # noqa: BLE001
            continue
        n += 1
        made += 1
        json.dump({"id": n, "kind": kind, "func": fname, "line": line, "before": before, "text": text}, open(f"{OUT}/{n:05d}.json", "w"))
    print("move mutants:", made)


def gen():
    shutil.rmtree(OUT, ignore_errors=True)
    os.makedirs(OUT)
    src = open(SRC).read()
    tree = ast.parse(src)
    sv = Sites()
    sv.visit(tree)
    n = 0
    for i, (kind, node, fn) in enumerate(sv.sites):
        t2 = ast.parse(src)
        sv2 = Sites()
        sv2.visit(t2)
        k2, node2, _ = sv2.sites[i]
        before = ast.unparse(node2)[:160]
        line = getattr(node2, "lineno", 0)
        try:
            t3 = apply(t2, kind, node2)
            ast.fix_missing_locations(t3)
            text = ast.unparse(t3) + "\n"
            compile(text, "m.py", "exec")
        except Exception:  # noqa: BLE001
            continue
        n += 1
        json.dump({"id": n, "kind": kind, "func": fn, "line": line, "before": before, "text": text}, open(f"{OUT}/{n:05d}.json", "w"))
    print("mutants:", n)


def run_tests(path):
    m = json.load(open(path))
    wd = f"/tmp/mut_{os.getpid()}"
    if not os.path.isdir(wd):
        os.makedirs(wd + "/src/hashstore")
        shutil.copytree("/repo/tests", wd + "/tests")
        for f in glob.glob("/repo/src/hashstore/*.py"):
            shutil.copy(f, wd + "/src/hashstore/")
    open(wd + "/src/hashstore/" + FNAME, "w").write(m["text"])
    if FNAME != "filehashstore.py":
        shutil.copy("/repo/src/hashstore/filehashstore.py", wd + "/src/hashstore/filehashstore.py")
    try:
        r = subprocess.run(["/venv/bin/python", "-m", "pytest", "-q", "-x", "-p", "no:cacheprovider", "--timeout=120"], cwd=wd,
                           env=dict(os.environ, PYTHONPATH=wd + "/src"), capture_output=True, text=True, timeout=900)
        ok = r.returncode == 0
    except subprocess.TimeoutExpired:
        ok = False
    m["survives"] = ok
    json.dump(m, open(path, "w"))
    return ok


def check_one(path):
    m = json.load(open(path))
    from hsa.loader import read_sources
    from tools_recheck_fast import run_all
    base = read_sources("/repo/src/hashstore")
    base[FNAME] = m["text"]
    name, viol, errs, rules, lines = run_all((path, base))
    m.update({"checks": viol, "errors": sorted(errs), "rules": rules})
    json.dump(m, open(path, "w"))
    return bool(viol), bool(errs)


def main():
    cmd = sys.argv[1]
    jobs = int(sys.argv[sys.argv.index("-j") + 1]) if "-j" in sys.argv else 16
    if cmd == "gen":
        gen()
    elif cmd == "genmoves":
        gen_moves()
    elif cmd == "test":
        files = [f for f in sorted(glob.glob(f"{OUT}/*.json")) if "survives" not in json.load(open(f))]
        with mp.get_context("fork").Pool(jobs) as pool:
            res = pool.map(run_tests, files, chunksize=4)
        print("survivors:", sum(res), "of", len(res))
        for d in glob.glob("/tmp/mut_*"):
            shutil.rmtree(d, ignore_errors=True)
    elif cmd == "check":
        files = [f for f in sorted(glob.glob(f"{OUT}/*.json")) if json.load(open(f)).get("survives") and ("--new" not in sys.argv or "checks" not in json.load(open(f)))]
        with mp.get_context("fork").Pool(jobs) as pool:
            res = pool.map(check_one, files, chunksize=1)
        print("survivors:", len(res), "reported:", sum(1 for v, e in res if v), "analysis-error only:", sum(1 for v, e in res if e and not v))
    elif cmd == "report":
        rows = [json.load(open(f)) for f in sorted(glob.glob(f"{OUT}/*.json"))]
        surv = [m for m in rows if m.get("survives")]
        und = [m for m in surv if not m.get("checks") and not m.get("errors")]
        print(f"mutants {len(rows)}, survive tests {len(surv)}, reported {sum(1 for m in surv if m.get('checks'))}, "
              f"analysis error only {sum(1 for m in surv if m.get('errors') and not m.get('checks'))}, unreported {len(und)}")
        for m in sorted(und, key=lambda m: (m["func"], m["line"])):
            print(f"{m['id']:5d} {m['func']:45s} L{m['line']:<5d} {m['kind']:9s} {m['before'][:110]}")


if __name__ == "__main__":
    main()
