#!/usr/bin/env python3
"""Regenerate the seeded-change and benign-refactoring tables of DESIGN.md §11 from the meta.json files."""
import glob, json, re
rows = []
for f in sorted(glob.glob("/verif/seeded/*/meta.json")):
    m = json.load(open(f))
    summ = " ".join((m.get("summary") or "").split())
    summ = summ[:230] + ("…" if len(summ) > 230 else "")
    need = " ".join((m.get("needs_to_manifest") or "").split())[:150]
    rows.append(f"| {m['seed_id']} | {summ} | {need} | {', '.join(m.get('rules_reporting') or m.get('checks_reporting') or [])} |")
brows = []
for f in sorted(glob.glob("/verif/benign/*/meta.json")):
    m = json.load(open(f))
    summ = " ".join((m.get("summary") or "").split())[:260]
    brows.append(f"| {m['id']} | {summ} | {'silent' if m.get('silent') else 'NOT silent: ' + str(m.get('violations')) + str(m.get('analysis_errors'))} |")
block = ["<!-- BEGIN GENERATED (tools_design_tables.py) -->",
         f"**{len(rows)} confirmed seeded changes** (each: the pinned 250 tests pass with it, its demonstration fails with it and passes without it; "
         "`/verif/seeded/<id>/{patch.diff, demo_*.py, meta.json}`; re-checked by `tools_seed_recheck.py`, and replayed in memory by the thorough tier):",
         "", "| id | change | needs, to manifest | rules that report it |", "|---|---|---|---|"] + rows + ["",
         f"**{len(brows)} independent behaviour-preserving refactorings** (`/verif/benign/<id>/`; the tests pass, every check must stay silent; `tools_benign_recheck.py`):",
         "", "| id | refactoring | checks |", "|---|---|---|"] + brows + ["<!-- END GENERATED -->"]
s = open("/verif/DESIGN.md").read()
if "<!-- BEGIN GENERATED" in s:
    s = re.sub(r"<!-- BEGIN GENERATED.*?<!-- END GENERATED -->", lambda _: "\n".join(block), s, flags=re.S)
else:
    s += "\n\n## 11. Seeded changes and benign refactorings: which checks catch what\n\n" + SECTION_INTRO + "\n\n" + "\n".join(block) + "\n" if False else ""
open("/verif/DESIGN.md", "w").write(s)
print(len(rows), "seeded,", len(brows), "benign")
