#!/usr/bin/env python3
"""Re-run every check against each seeded change under /verif/seeded (apply to /repo, check, undo)
and refresh checks_reporting / rule_reports in its meta.json.  Prints a summary table."""
import glob, json, os, re, subprocess, sys
def sh(c, **kw): return subprocess.run(c, shell=True, capture_output=True, text=True, **kw)
assert sh("git -C /repo status --porcelain").stdout.strip() == "", "/repo not clean"
rows = []
for d in sorted(glob.glob("/verif/seeded/*/")):
    meta = json.load(open(d + "meta.json"))
    ap = sh(f"git -C /repo apply {d}patch.diff")
    if ap.returncode != 0:
        rows.append((meta["seed_id"], "PATCH DOES NOT APPLY", "")); continue
    try:
        out = sh("cd /verif && HSA_NO_CANARY=1 /venv/bin/python -m hsa check all", timeout=900).stdout
    finally:
        sh("git -C /repo checkout -- .")
    viol = sorted(set(re.findall(r"VIOLATION property=(C\d+)", out)))
    errs = sorted(set(re.findall(r"ANALYSIS-ERROR property=(C\d+)", out)))
    lines = [l.strip() for l in out.splitlines() if re.search(r"  C\d\d\.[a-z]  ", l)]
    rules = sorted(set(re.findall(r"  (C\d\d\.[a-z])  ", out)))
    meta.update({"checks_reporting": viol, "analysis_errors": errs, "rule_reports": lines[:12], "rules_reporting": rules,
                 "detected": bool(viol), "own_property_reports": meta["property"] in viol})
    json.dump(meta, open(d + "meta.json", "w"), indent=1)
    rows.append((meta["seed_id"], ",".join(viol) or "-", ",".join(rules)))
sh("cd /verif && git checkout -- evidence 2>/dev/null; rm -f /verif/evidence/*.findings.json")
for r in rows:
    print("%-8s %-24s %s" % r)
