#!/usr/bin/env python3
"""Regenerate /verif/MANIFEST.json from the rule catalogue (kept as a script so that the
manifest cannot drift from what the checks actually do)."""
import json

CLAIMS = {
 "C01": ("Stream protocol conformance for every admitted input kind; caller's stream restored and never closed (typestate on _pos, must-close pairing); one pass writes and hashes the same chunk for every algorithm; cid/address/ObjectMetadata wiring. Byte/digest equality over all contents is NOT decided.",
         "protocol conformance + typestate + dataflow over the inlined abstract interpretation"),
 "C02": ("No mutation of the shared algorithm tables through any alias (history independence of the digest key set); algorithm names cleaned before hashlib and digest-map use; table agreement; digest-map keys = per-call list. Digest values are NOT decided.",
         "alias/mutation analysis, taint over symbolic terms, table agreement"),
 "C03": ("Reject-before-write on every path of the four-way split (fact entailment by truth table), rejection never reaches roll-back, rejection classes preserved, who-may-unbind a pid.",
         "guarded-path effect analysis with propositional entailment; handler-flow analysis"),
 "C04": ("Who may remove an object (closed table), each deleter control-dependent on the reference list being empty/absent under the cid claim, de-duplication never rewrites, metadata calls' effect classes, last reference removes object and list.",
         "who-may-delete by path class, guard dominance via must-facts, lockset"),
 "C05": ("No use of a path after rename (typestate), every deletion marker and temp file consumed on every normal path (may-sets empty at exit), emptied cid lists removed, sibling clean-ups agree. Exactness over all histories is NOT decided.",
         "path typestate + must-consume obligations on the inlined interpretation; sibling cross-check"),
 "C06": ("All checksum comparisons normalise alike (contradiction rule), verdict before publication and before tagging, both branches verify with equal arguments, temp removed on invalid verdict, delete_if_invalid acts exactly on invalid verdicts, argument pairing.",
         "contradiction rule on sibling comparisons; must-pass-through (done sets); handler-flow"),
 "C07": ("Eraser-style write lockset per resource class over every call context and both modes; check-then-act atomicity (a guarded mutation shares a critical section with one of its guards); try-claim uniqueness; flock order; claim key agreement. Necessary condition for linearizability, not sufficiency.",
         "lockset analysis (must-held claims per context) + stale-check rule"),
 "C08": ("Every claim released on every normal and exceptional path from every entry (may-held empty at exits), claim/notify condition agreement, acyclic claim order, nothing but claim bookkeeping under a condition's mutex, waits re-check, releases notify. Lost wake-ups are argued by hand only.",
         "acquire/release pairing on all paths incl. exceptional edges; lock-order graph"),
 "C09": ("No permanent object/metadata/pid-reference file is ever opened for writing; publication is a rename from a closed temp file staged in the same entity tree; removal is one rename-to-marker or one remove.",
         "who-may-write by path class; rename provenance; must-closed before publish"),
 "C10": ("Order of durable steps (done-set dominance), exhaustive recovery dispatch over the classes _find_object raises, every clean-up branch unbinds the pid, no use-after-rename in clean-up, re-tagging tolerates a listed pid. Actual post-crash states are NOT decided.",
         "step-order dominance; exhaustiveness of exception dispatch"),
 "C11": ("One address derivation metadata/shard(H(pid))/H(pid+F) at every site (symbolic terms vs README oracle), default-namespace substitution evaluated for both argument shapes, delete_object reaches delete-all on every normal path, no-op / not-found exits.",
         "symbolic address terms compared with the README oracle; must-call"),
 "C12": ("Claim key agreement for document claims, existence check inside the claim for every dependent removal, write lockset on documents, claims released on all paths.",
         "lock-shape matcher + stale-check rule + lockset on class META"),
 "C13": ("No OSError-capable handler completes normally outside a reasoned swallower table (syntactic and path-based), swallowing helpers reachable only from roll-back, roll-back and temp clean-up on the failing paths.",
         "error-discipline analysis over handlers with a frozen, reasoned exception table"),
 "C14": ("All pinned keys compared (integers as integers), refusal dominates every file-system change of the constructor, configuration written once under a negative existence test, data-without-config probe covers what the constructor creates, algorithm tables agree.",
         "dominance via done-sets on the constructor's interpretation; table agreement"),
 "C15": ("Every primitive on a permanent file uses the README address term of its class with H = store algorithm; _shard tiles the digest (canonical polynomial slice bounds); reference-file and yaml formats agree between writers and readers.",
         "symbolic address terms vs README oracle; algebraic slice normalisation; writer/reader agreement"),
 "C16": ("Constructor mode guard equals every use-site guard for every value the flag can take, defined-before-used per mode, twin branches equal modulo _mp/_th and logging, cross-process constructors, documented variable.",
         "guard evaluation over the flag's finite value domain; twin diff; def-use per mode"),
 "C17": ("At every state-changing primitive all validated parameters have passed their checker (all paths, all contexts), every parameter is validated, checker predicates intact, read-only calls reach no mutating primitive, unknown pid raises before any effect.",
         "validate-before-mutate as must-set dominance; effect summaries"),
 "C18": ("pid/format_id reach paths only under the store hash (term-structure taint), whole-line equality for list membership/removal, only _check_string-ed values written as lines, every created path rooted at the store root.",
         "taint over symbolic path terms; comparison-operator rule; root containment"),
 "C20": ("argparse type model vs API annotations, option-to-parameter binding table, verb dispatch and required options from the interpretation of main(), None pass-through for None-sensitive parameters, key tables.",
         "abstract interpretation of the client entry point with an argparse model"),
}

checks = []
for pid, (text, tech) in sorted(CLAIMS.items()):
    checks.append({
        "property_id": pid,
        "quick_cmd": f"/venv/bin/python -m hsa check {pid} --tier quick",
        "thorough_cmd": f"/venv/bin/python -m hsa check {pid} --tier thorough",
        "evidence_file": f"/verif/evidence/{pid}.json",
        "replay_cmd_template": "cat {path}",
        "engine": "hsa",
        "level_claimed": {
            "category": "other",
            "text": "Static analysis (no execution) of /repo's current source: " + text +
                    " Level 'other': a sound-by-construction structural decision of the listed clauses over every path, call context and both synchronisation modes; the behavioural statement follows only under the assumptions of DESIGN §8.",
            "design_ref": f"DESIGN.md §3 {pid}, §4.2",
        },
        "level_note": "Trusted base: CPython ast; hsa's primitive table and abstract interpreter (exceptional edges over-approximated; library exceptions never instances of the package's own classes; logging/claim bookkeeping do not raise); frozen tables with one reason per entry (DESIGN §8.6). Thorough tier adds the variant/twin self-test of the rules on in-memory edits of the current source.",
        "technique": "static analysis: " + tech,
    })

manifest = {
    "version": 1,
    "setup_cmd": "/venv/bin/python -m compileall -q hsa && /venv/bin/python -c \"import sys; sys.path.insert(0,'/verif'); import hsa.__main__, hsa.rules_locks, hsa.rules_paths, hsa.rules_data\"",
    "hooks": {
        "guard": "HASHSTORE_VERIF",
        "enable": "none needed: the analysis reads /repo's source only; no hook or instrumentation is compiled into hashstore",
        "baseline_off_cmd": "cd /repo && /venv/bin/python -m pytest -ra -q -p no:cacheprovider --timeout=900 --continue-on-collection-errors",
        "source_commits": [],
        "add_only": True,
    },
    "engines": [{
        "name": "hsa",
        "path": "/verif/hsa",
        "serves_properties": sorted(CLAIMS),
        "kind_free_text": "repository-specific static analyser: stdlib ast, structured abstract interpreter with full call-string inlining, exceptional edges, symbolic path terms, must/may lock sets, propositional guard entailment by truth table; nothing of hashstore is imported or run",
    }],
    "checks": checks,
    "not_applicable": [{
        "property_id": "C19",
        "reason": "relational property over pairs of executions from every reachable state (two procedures must end in equal store states and report equal values); no structural fact of one program text is a necessary condition of it that is not already a clause of C06 (uniform checksum normalisation C06.a, verdict-before-publication/tagging C06.b); a 'both procedures call the same helpers' rule would fire on behaviour-preserving refactorings, so an honest not-applicable is given instead of a brittle proxy (DESIGN §4.1)",
    }],
    "notes": "All checks share one engine (python -m hsa check all runs the 19 claimed properties in ~2 s). Exit 0 = held (KNOWN-FINDING lines for /verif/known_findings.json entries), 1 = VIOLATION, 2 = ANALYSIS-ERROR (never a verdict). Eleven genuine defects were found on the pinned tree; ten are repaired by fix: commits in /repo, one (KF-1) is a known finding.",
}
json.dump(manifest, open("/verif/MANIFEST.json", "w"), indent=1)
print("wrote MANIFEST.json with", len(checks), "checks")
