#!/usr/bin/env python3
"""Re-run every check against each behaviour-preserving refactoring under /verif/benign: all must stay silent."""
import glob, json, re, subprocess
def sh(c, **kw): return subprocess.run(c, shell=True, capture_output=True, text=True, **kw)
assert sh("git -C /repo status --porcelain").stdout.strip() == ""
bad = 0
for d in sorted(glob.glob("/verif/benign/*/")):
    assert sh(f"git -C /repo apply {d}patch.diff").returncode == 0, d
    try:
        out = sh("cd /verif && HSA_NO_CANARY=1 /venv/bin/python -m hsa check all", timeout=900).stdout
    finally:
        sh("git -C /repo checkout -- .")
    viol = sorted(set(re.findall(r"VIOLATION property=(C\d+)", out))); errs = sorted(set(re.findall(r"ANALYSIS-ERROR property=(C\d+)", out)))
    meta = json.load(open(d + "meta.json")); meta.update({"violations": viol, "analysis_errors": errs, "silent": not viol and not errs})
    json.dump(meta, open(d + "meta.json", "w"), indent=1)
    print(meta["id"], "SILENT" if meta["silent"] else f"NOT SILENT {viol} {errs}"); bad += (not meta["silent"])
sh("cd /verif && git checkout -- evidence 2>/dev/null; rm -f /verif/evidence/*.findings.json")
raise SystemExit(1 if bad else 0)
