#!/usr/bin/env python3
"""Confirm a seeded change delivered in a scratch worktree and record it under /verif/seeded/<id>/.

usage: tools_seed.py <worktree> <seed-id> [--no-tests]
 1. demo fails with the change, passes without it (in the worktree)
 2. the pinned test suite passes with the change
 3. copy patch.diff / demo / meta.json to /verif/seeded/<id>/
 4. apply the patch to /repo, run every check, record which ones report, undo
"""
import json, os, re, shutil, subprocess, sys

wt, sid = sys.argv[1], sys.argv[2]
run_tests = "--no-tests" not in sys.argv
env = dict(os.environ, PYTHONPATH=f"{wt}/src")
PY = "/venv/bin/python"

def sh(cmd, **kw):
    return subprocess.run(cmd, shell=True, capture_output=True, text=True, **kw)

meta = json.load(open(f"{wt}/meta.json")) if os.path.exists(f"{wt}/meta.json") else {}
prop = meta.get("property") or re.search(r"C\d\d", sid).group(0)
demo = [f for f in os.listdir(wt) if f.startswith("demo_") and f.endswith(".py")][0]
diff = sh(f"git -C {wt} diff -- src").stdout
assert diff.strip(), "no change in worktree"
open(f"{wt}/patch.diff", "w").write(diff)
r1 = sh(f"{PY} {wt}/{demo}", env=env, cwd=wt, timeout=900)
# no `git stash`: the stash is shared by all worktrees of /repo
sh(f"git -C {wt} checkout -- src")
r0 = sh(f"{PY} {wt}/{demo}", env=env, cwd=wt, timeout=900)
ap0 = sh(f"git -C {wt} apply {wt}/patch.diff")
assert ap0.returncode == 0, ap0.stderr
print("demo with change: rc", r1.returncode, "| without: rc", r0.returncode)
tests = "skipped"
if run_tests:
    t = sh(f"{PY} -m pytest -q -p no:cacheprovider --timeout=900 -x", env=env, cwd=wt, timeout=1800)
    tests = t.stdout.strip().splitlines()[-1] if t.stdout.strip() else t.stderr[-200:]
    print("tests with change:", tests)
ok = r1.returncode != 0 and r0.returncode == 0 and (not run_tests or ("passed" in tests and "failed" not in tests))
# run the checks against /repo with the patch applied
assert sh("git -C /repo status --porcelain").stdout.strip() == "", "/repo not clean"
ap = sh(f"git -C /repo apply {wt}/patch.diff")
assert ap.returncode == 0, ap.stderr
try:
    out = sh(f"cd /verif && HSA_NO_CANARY=1 {PY} -m hsa check all", timeout=600).stdout
finally:
    sh("git -C /repo checkout -- . && git -C /repo clean -fdq src")
sh("cd /verif && git checkout -- evidence 2>/dev/null; rm -f /verif/evidence/*.findings.json")
viol = re.findall(r"VIOLATION property=(C\d+)", out)
errs = re.findall(r"ANALYSIS-ERROR property=(C\d+)", out)
lines = [l.strip() for l in out.splitlines() if re.search(r"  C\d\d\.[a-z]  ", l)]
print("checks reporting:", viol, "analysis errors:", sorted(set(errs)))
for l in lines[:8]:
    print("   ", l[:260])
d = f"/verif/seeded/{sid}"
os.makedirs(d, exist_ok=True)
shutil.copy(f"{wt}/patch.diff", d)
shutil.copy(f"{wt}/{demo}", d)
meta.update({
    "property": prop, "seed_id": sid, "confirmed": ok,
    "confirmed_how": {"demo_with_change_rc": r1.returncode, "demo_without_change_rc": r0.returncode, "tests_with_change": tests,
                      "demo_tail_with_change": r1.stdout.strip().splitlines()[-3:]},
    "checks_reporting": sorted(set(viol)), "analysis_errors": sorted(set(errs)),
    "rule_reports": lines[:12],
    "detected": bool(viol),
})
json.dump(meta, open(f"{d}/meta.json", "w"), indent=1)
print("CONFIRMED" if ok else "NOT CONFIRMED", "| DETECTED" if meta["detected"] else "| MISSED")
