"""Generate the prompts handed to the blind seeding / refactoring sub-agents.

    tools_prompts.py seed <round> [Cnn ...]     -> /dev/shm/prompts/<Cnn>_r<round>.txt, worktree /tmp/ws<round>_<Cnn>
    tools_prompts.py benign <first-id> <n>      -> /dev/shm/prompts/benign_<id>.txt,   worktree /tmp/wtb_<id>

The prompts contain only the property text (from properties.jsonl) and the list of ideas
already used (from seeded/*/meta.json summaries); nothing about the machinery in /verif.
Not part of any registered check."""

import glob
import json
import os
import sys

HERE = os.path.dirname(os.path.abspath(__file__))
OUT = "/dev/shm/prompts"

STYLES = [
    "The break should manifest only under a SPECIFIC INTERLEAVING of two or more concurrent calls (threads, or processes / two store instances on one directory).",
    "The break should manifest only when an I/O FAULT or a crash happens at a particular point (an OSError from one specific os/shutil call, a killed process).",
    "The break should manifest only after a particular MULTI-STEP SEQUENCE of public API calls (history-dependent).",
    "The break should manifest only for an UNUSUAL INPUT (odd identifier, spelling, size, type or argument combination) or an unusual but accepted store configuration.",
    "The break should come from TWO COOPERATING EDITS at different sites (different functions) that each look fine alone.",
    "The break should be VALUE-LEVEL: keep the shape of the code (which functions call which, which locks are taken and released where, which files are created, renamed and removed in which order) exactly as it is, and change only a value, a constant, an operator, a condition or an expression somewhere - so that every statement still looks locally reasonable.",
    "The break should be an OMISSION or a REORDERING: one existing statement (or a small block) is dropped, duplicated, or moved a few lines up or down / into or out of a try, with, if or loop body - nothing new is written.",
]

GENERIC_USED = [
    "reverting a recent fix: commit",
    "substring/suffix/prefix matching of pids in cid reference files",
    "changing `while` to `if` in a wait loop",
    "creating an empty placeholder at a permanent address before the rename",
    "rewriting a cid reference file without its trailing newline",
    "replacing == by hmac.compare_digest",
    "hoisting an existence check or path preparation in front of the lock",
    "a process-wide or per-instance cache/memo (of hashstore.yaml, of pid->cid, ...)",
    "changing how _computehash hashes a string (prefix, normalisation, file content)",
    "storing per-request state in a self attribute",
    "return inside a finally block",
    "relative store paths",
    "hard-coding a default in the command-line client",
    "claiming an identifier with the wrong lock helper / wrong claim list",
    "Stream.read1 / stopping at a short block",
    "moving the `.append(...)` that records a claim out of the `with <condition>:` block (dedenting it)",
    "moving the `_find_object` call (or another call) out of the try whose handlers are meant for it",
    "swapping the order in which the pid and the cid reference files are moved into place",
    "pruning empty shard / metadata directories after a delete",
    "a @contextmanager claim helper without try/finally",
    "deleting the old metadata document before moving the new one into place",
    "reading the cid reference file before taking the flock",
    "threading primitives used in the multiprocessing arm (or the reverse)",
    "a character count used as a byte size (text-mode truncate / seek)",
    "a variable bound only inside a loop body or a handler and read afterwards",
    "break / early return in the loop over a pid's metadata documents",
    "%-formatting with run-time text (or any other raising statement) placed before the roll-back call in an error handler",
    "tolerating keys that are missing from hashstore.yaml",
    "reading reference files inside the except handler of a mismatch error",
    "argparse features that re-interpret option values (fromfile_prefix_chars, choices, type=...)",
    "truthiness tests that treat 0 / empty as missing (sizes, empty objects)",
    "case / whitespace normalisation (strip, lower, upper) of pids, cids, format ids or algorithm names before they are used or compared",
    "os.register_at_fork / atexit hooks",
    "moving a guard call below the first mutation in _untag_object",
    "dropping notify() or notifying the wrong condition",
    "text-mode open of data objects",
    "temp files created outside the store's tmp directories (NamedTemporaryFile without dir=, _create_path result reused)",
    "removing _check_string / argument validation from a public method",
    "deleting the just-stored object in store_object when tagging fails",
    "dropping the rewind (seek(0)) in Stream.__iter__",
    "closing a raw file descriptor twice",
    "renaming the temp file into place before it is closed / flushed",
    "moving the tagging in store_object outside the pid claim",
    "a string-method comparison that makes the multiprocessing flag always false",
    "Stream opening non-regular files (FIFO) / dropping the isfile test",
    "bounding the Stream read loop by a stat'ed size or a chunk counter",
    "zip / grouper rewrites of _shard",
    "sorting or de-duplicating the lines written back to a cid reference file; line buffering of that file",
    "removing a stale _delete marker before renaming onto it",
    "unbuffered (buffering=0) temp files; os.write",
    "swallowing errors from close() of the temp file",
    "skipping zero blocks (sparse files) when writing the temp file",
    "lazy creation of the multiprocessing Manager lists (properties)",
    "one-shot generators used as class-level tables",
    "removing hashstore.yaml in the client after a failed create",
    "accepting io.IOBase / text streams in _check_arg_data",
    "flag-gated roll-back in _store_hashstore_refs_files",
    "replacing the in-place cid-list rewrite by write-temp-and-rename; truncate-then-write in the add branch",
    "dropping delete_metadata from a recovery branch of delete_object",
    "try/except/else restructuring that loses the raise of HashStoreRefsAlreadyExists",
]

SEED = """You are helping test a verification framework by acting as an independent "bug seeder". Work ONLY inside the git worktree {wt} (a checkout of the Python project DataONEorg/hashstore: a content-addressable file object store; source in {wt}/src/hashstore, tests in {wt}/tests). Do NOT read or touch /verif or /repo; do not look for any verification tooling. Everything you need is in the worktree.

PROPERTY (the behaviour users rely on):
Title: {title}
Statement: {statement}
Quantifier: {quantifier}

YOUR TASK: make ONE realistic source change (a plausible refactoring slip, "optimisation", or maintenance edit a developer could make; typically 1-15 changed lines in src/hashstore/*.py) that BREAKS this property, such that:
 1. the package still imports/compiles, and
 2. the project's existing test suite still passes completely: run it with
      cd {wt} && PYTHONPATH={wt}/src /venv/bin/python -m pytest -q -p no:cacheprovider --timeout=900 -x
    (250 passed / 3 skipped is the baseline; make sure the tests import the worktree's copy: PYTHONPATH={wt}/src does that), and
 3. the breakage needs something specific to manifest - a particular interleaving, a crash/fault at a particular point, a multi-step sequence of operations, an unusual input, or two cooperating sites that each look fine alone - NOT something ordinary use would expose at once.
Then write a DEMONSTRATION: a small standalone script {wt}/demo_{pid}.py (use tempfile dirs; may use threads, monkeypatching of os/shutil functions for fault or schedule forcing, etc.) that exits 0 (prints PASS) on the ORIGINAL code and exits non-zero (prints FAIL and why) WITH your change. Run it as  PYTHONPATH={wt}/src /venv/bin/python {wt}/demo_{pid}.py . Verify both directions yourself (use `git diff -- src > {wt}/patch.diff; git checkout -- src; <run demo>; git apply {wt}/patch.diff` - do NOT use `git stash`: the stash is shared with other worktrees and other people are working in parallel), and verify the full test suite passes WITH your change. Clean up any temp directories your demo creates.

Deliver, in the worktree:
 - your change left applied in the working tree AND saved as {wt}/patch.diff (output of `git -C {wt} diff -- src`),
 - {wt}/demo_{pid}.py,
 - {wt}/meta.json with keys: property ("{pid}"), summary (what you changed, one or two sentences), needs_to_manifest (what specific input/schedule/fault/sequence is needed), files_changed, functions_changed, demo_cmd, tests_cmd, tests_result (e.g. "250 passed, 3 skipped"), demo_result_original, demo_result_patched.
Do not commit anything. Do NOT simply revert (fully or partly) one of the recent 'fix:' commits visible in `git log`; invent a different change. Prefer a subtle change that a code reviewer could plausibly miss.

STYLE REQUIREMENT: {style}

Ideas ALREADY USED by other seeders - do NOT repeat them, find a genuinely different mechanism (a different function, a different kind of slip):
{used}
In your final answer, report the summary, the diff, and the observed results of the test suite and of the demo in both directions."""

BENIGN = """You are helping test a static-analysis tool for false alarms by producing a BEHAVIOUR-PRESERVING refactoring. Work ONLY inside the git worktree {wt} (a checkout of the Python project DataONEorg/hashstore; source in {wt}/src/hashstore, tests in {wt}/tests). Do NOT read or touch /verif or /repo. Do not use `git stash`.

TASK: make a realistic, behaviour-preserving maintenance refactoring of moderate size (roughly 15-80 changed lines) in {wt}/src/hashstore/filehashstore.py (and/or hashstoreclient.py), the kind a careful maintainer would merge: Focus: {focus}
Hard requirements:
 - Observable behaviour of the public API must be EXACTLY preserved for every input, interleaving and I/O fault: same files created/renamed/removed in the same order, same locking (same identifiers claimed and released at the same points, same wait/notify behaviour in both threading and multiprocessing mode), same exceptions, same return values. Do not fix bugs, do not change semantics, do not add features. If in doubt, keep it simpler.
 - The test suite must still pass: cd {wt} && PYTHONPATH={wt}/src /venv/bin/python -m pytest -q -p no:cacheprovider --timeout=900 -x   (baseline: 250 passed, 3 skipped).
Deliver in the worktree: the change left applied, {wt}/patch.diff (output of `git -C {wt} diff -- src`), and {wt}/meta.json with keys summary, functions_changed, why_behaviour_preserving, tests_result. In your final answer give the summary and the diff."""

FOCI = [
    "`store_object` / `_store_and_validate_data` / `_move_and_get_checksums`: extract small private helpers for argument validation and for the duplicate-object branch, flatten nesting with guard clauses, rename locals. Keep the try/except/finally structure's coverage identical.",
    "`delete_object`: the four branches (normal, OrphanPidRefsFileFound, RefsFileExistsButCidObjMissing, PidNotFoundInCidRefsFile) repeat code; factor the repeated `objects_to_delete.append(self._rename_path_for_deletion(...))` into a tiny local helper or loop, WITHOUT changing the order of renames/removals or which claims are held.",
    "`_store_hashstore_refs_files`: replace the if/elif chain over `os.path.isfile(pid_refs_path)`/`os.path.isfile(cid_refs_path)` by the same chain with named local helper predicates defined INSIDE the locked region (re-evaluated each time, not cached), and split the long error-message construction into a helper.",
    "`_update_refs_file`, `_write_refs_file`, `_is_string_in_refs_file`: modernise (pathlib where equivalent, f-strings, `with` blocks merged, comprehension instead of loop where it produces the identical list), keep flock calls and the order read/seek/truncate/write exactly.",
    "`store_metadata` / `_put_metadata` / `_mktmpmetadata` / `delete_metadata` / `retrieve_metadata`: extract a helper that computes (pid hash, document name, relative path) used by all of them; guard clauses; keep claims and order of file operations.",
    "`__init__`, `_load_properties`, `_write_properties`, `_verify_hashstore_properties`, `_validate_properties`, `_set_default_algorithms`: tidy (constants for key names at class level, early returns, helper for building the yaml text) while reading/writing hashstore.yaml at exactly the same points with the same content.",
    "the eight lock helpers `_synchronize_*` / `_release_*` / `_check_object_locked_cids`: reduce duplication between the multiprocessing and threading arms using a small private method that returns the (condition, list) pair for the current mode, keeping the wait loop / append / remove / notify sequence exactly.",
    "`Stream`, `_computehash`, `_cast_to_bytes`, `_shard`, `_build_hashstore_data_object_path`, `_get_hashstore_*_path`: typing, docstrings, rename locals, replace `os.path.join` with Path `/` where the result is identical for all inputs actually passed, keep iteration/read behaviour exactly.",
    "`hashstoreclient.py` `main()`: split the long if/elif over actions into one small function per action called from a dispatch dict, with the same argument handling (same None defaults, same order of evaluation, same prints and exceptions).",
    "`_find_object`, `_verify_hashstore_references`, `_verify_object_information`, `delete_if_invalid_object`, `_delete_object_only`: extract error-message builders, guard clauses instead of nested if/else, keep every raise (class and condition), every deletion and every claim exactly.",
    "the identifier claims: introduce `@contextmanager` helpers (e.g. `_object_pid_claim(pid)`, `_cid_claim(cid)`, `_reference_pid_claim(pid)`, `_metadata_doc_claim(pid_doc)`) that call the existing `_synchronize_*` / `_release_*` helpers (or the inline blocks of store_metadata/delete_metadata) in a try/finally around `yield`, and use them with `with` in `delete_object`, `_delete_object_only`, `_store_hashstore_refs_files`, `store_metadata` and `delete_metadata` in place of the explicit try/finally blocks - claim and release points must stay exactly where they are (same order of claims, same order of releases).",
    "pathlib modernisation across `filehashstore.py`: replace `os.path.join` / `os.path.dirname` / `os.path.isfile` / `os.path.exists` / `os.path.getsize` by the equivalent `Path` operations ONLY where the result is identical for every input that reaches the call (beware: `Path.is_file()` swallows some OSErrors that `os.path.isfile` also swallows - that pair is equivalent; `Path(x) / y` with absolute `y` restarts like `os.path.join`); keep `shutil.move`, `os.remove` and `open` calls and their order.",
    "error handling tidy-up WITHOUT changing which exceptions propagate: name the exception variables consistently, replace `raise err` / `raise e` by bare `raise` only where the traceback difference is the only effect, merge duplicated log-message construction into small helpers, keep every `except` clause's class list, order and body effects (deletions, releases) identical.",
    "the wait loops of the identifier claims: replace every `while ident in locked_list: condition.wait()` by the equivalent `condition.wait_for(lambda: ident not in locked_list)` (both in the `_synchronize_*` helpers and in the inline claim blocks of `store_metadata` / `delete_metadata`), keep the append that follows, the `with condition:` blocks, the releases and notifies exactly where they are; keep the debug logging as close as is reasonable.",
    "`tag_object`, `_untag_object`, `_mark_pid_refs_file_for_deletion`, `_remove_pid_and_handle_cid_refs_deletion`, `_validate_and_check_cid_lock`: reduce duplication and nesting (guard clauses, small private helpers, consistent local names) while keeping every file operation, every raise, every swallowed error and every claim / release exactly where it is and in the same order.",
    "module layout: move `Stream` and `ObjectMetadata` (and, if you like, the pure static helpers `_cast_to_bytes` / `_check_string` / `_check_integer` / `_check_arg_format_id` logic as module-level functions that the existing methods delegate to) into a new module `src/hashstore/_util.py` (or similar) and import them back into `filehashstore.py` so that every existing name (`hashstore.filehashstore.Stream`, `FileHashStore._check_string`, ...) keeps working for the tests and for callers.",
    "`_delete`, `_rename_path_for_deletion`, `_delete_marked_files`, `_create_path`, `_get_store_path`, `_get_hashstore_data_object_path` / `_get_hashstore_metadata_path` / `_get_hashstore_pid_refs_path` / `_get_hashstore_cid_refs_path`: replace the if/elif chains over the entity name by a dict or `match` dispatch with the identical mapping and the identical error for an unknown entity; keep which path is tried first and every file operation.",
    "`store_object`: split into `_store_object_with_pid` and `_store_object_without_pid` private methods called from `store_object` after the argument checks, keeping the claim of the pid, the try/except/finally coverage (what is released and logged on which path) and the order of `_store_and_validate_data` / `tag_object` exactly; rename locals for clarity.",
    "result objects: replace the plain dict returned by `_find_object` / used between `_store_and_validate_data`, `_move_and_get_checksums` and `store_object` by small `typing.NamedTuple`s (or keep tuples but name the fields), updating every producer and consumer consistently, with the same keys / values flowing into `ObjectMetadata` and the same behaviour for every caller inside the package.",
    "the identifier claims, generic form: in `__init__` build one small table (dict) per synchronisation mode that maps a claim kind ('object_pid', 'object_cid', 'reference_pid', 'metadata_doc') to its (condition, locked list) pair - the very same Condition and list objects that the existing attributes hold, which must keep existing - and route the bodies of the `_synchronize_*` / `_release_*` / `_check_*` helpers (and, if you like, the inline claim blocks of `store_metadata` / `delete_metadata`) through two private methods `_claim(kind, identifier)` and `_unclaim(kind, identifier)` that contain the one wait-loop / append and the one remove / notify sequence. Every public or private helper keeps its name, signature, log messages and exceptions.",
    "exception hierarchy: in `filehashstore_exceptions.py` introduce a common base class (e.g. `HashStoreError(Exception)`) that all the custom exceptions inherit from, keeping every class name, constructor signature and message behaviour; tidy the module (docstrings, a shared `__init__` in the base instead of the repeated ones). No `except` clause in `filehashstore.py` may start catching more or less than before (do NOT replace specific clauses by the new base class).",
    "class layout: move the eight-plus lock helpers (`_synchronize_*`, `_release_*`, `_check_*locked*`) out of `FileHashStore` into a mixin class (e.g. `_IdentifierClaimsMixin`) defined in a new module `src/hashstore/_claims.py`; `FileHashStore` inherits from it (`class FileHashStore(_IdentifierClaimsMixin, HashStore)`). Bodies move verbatim; the attributes they use are still created in `FileHashStore.__init__`.",
    "`store_metadata` / `delete_metadata`: extract the three inline metadata-document claim blocks and their release blocks into helper methods `_synchronize_metadata_locked_docs(pid_doc)` / `_release_metadata_locked_docs(pid_doc)` written exactly like the existing object helpers (multiprocessing arm and threading arm, same wait loop / append, same remove / notify, same log messages where possible), and call them at exactly the points where the inline blocks were (claim before the `try`, release in the `finally`).",
    "small modern idioms throughout `filehashstore.py`, each one only where it is exactly equivalent: `contextlib.suppress(X)` for a `try: ... except X: pass`-style handler whose body only swallows, `any()` / `all()` / `next()` for flag loops, walrus assignments, `enumerate`, chained comparisons, `dict.get` with default, early `continue` in loops, f-strings for concatenations. Do not touch what a handler catches or re-raises.",
    "naming: rename a handful of private helpers to clearer names consistently at definition and every call site (for example `_delete` -> `_delete_entity_file`, `_exists` -> `_entity_file_exists`, `_open` -> `_open_entity_file`, `_get_file_paths` -> `_list_directory_files`, `_mktmpfile` -> `_create_tmp_file`), and keep a thin alias with the old name ONLY where the tests call the old name directly; rename locals that shadow builtins (`file`, `dir`).",
    "`hashstoreclient.py` beyond `main()`: tidy `HashStoreClient` and the bulk helpers (`store_to_hashstore_from_list`, `retrieve_and_validate_from_hashstore`, `delete_objects_from_list`, `MetacatDB`): type hints, f-strings, `with multiprocessing.Pool(...) as pool` where it is exactly equivalent to the existing create / close / join sequence, extracted small functions, consistent names. The option parsing and every call into the HashStore API (which method, which arguments in which order, which defaults) stay exactly as they are.",
    "`_verify_hashstore_references` and `_verify_object_information`: split each into smaller private checkers (one per thing verified), with guard clauses instead of nested if/else; every raise keeps its class, message and the condition under which it fires; every deletion of the temp file stays in front of the raise it belongs to.",
    "`_write_to_tmp_file_and_get_hex_digests`, `_mktmpfile`, `_mktmpmetadata`: restructure the try / except / finally and the completion flag (for example try / except / else, or an early-return style, or a small context manager that removes the temp file unless told it was completed) so that exactly the same clean-up happens on exactly the same paths; rename locals for clarity.",
    "entity names: introduce `class Entity(str, enum.Enum)` (members OBJECTS='objects', METADATA='metadata', REFS='refs', CID='cid', PID='pid', TMP='tmp') and use its members instead of the string literals at the call sites of `_get_store_path`, `_delete`, `_exists`, `_open`, `_count` inside `filehashstore.py`; plain strings must keep working for every caller (the members ARE strings), comparisons inside the helpers keep their meaning.",
    "`FileHashStore.__init__` is long: extract `_init_store_paths(self, ...)` (root / objects / metadata / refs / cids / pids / the yaml path and the creation of the directories) and `_init_synchronization(self)` (the whole multiprocessing / threading block that creates locks, conditions and locked lists) as private methods called from `__init__` at exactly the points where the code was, keeping the order of every file-system operation and every attribute name.",
    "`delete_object`: move the body of each of the four recovery branches (the `except OrphanPidRefsFileFound`, `except RefsFileExistsButCidObjMissing`, `except PidNotFoundInCidRefsFile` handlers and the normal path's inner block) into its own private method (`_delete_object_normal(...)`, `_delete_object_orphan_pid_refs(...)`, ...), called from exactly where the code was, with the claims taken and released exactly as now and the same order of renames / removals / metadata deletion.",
    "pathlib file I/O, each only where exactly equivalent (same mode, same encoding, same bytes, same exceptions): `Path.read_text(encoding='utf8')` for the open/read pair in `_read_small_file_content`, `Path.write_text` for writing the one-line temp reference file in `_write_refs_file`, `Path.open(...)` for `open(path, ...)` elsewhere; do not touch the `r+` rewrite of the cid reference file (flock / seek / truncate sequence) nor any `shutil.move` / `os.remove`.",
    "`_store_hashstore_refs_files`: move the body of each of the four cases (both reference files exist / only the pid reference exists / only the cid reference exists / neither exists) into its own private method called from exactly where the code was; the claims (`_synchronize_*` / `_release_*`), the try / except / finally structure with the roll-back handler and the order of every check, write, move and verification stay exactly as they are.",
    "source layout only: reorder the methods of `FileHashStore` into clearly commented sections (public API first, then object helpers, reference helpers, metadata helpers, path helpers, argument checks, synchronisation), add a module docstring and `__all__`, sort the imports; method BODIES must not change at all.",
    "a small module-level helper class `_RefsFile` (in `filehashstore.py`) that wraps the path of one reference file and offers `contains(ref_id)`, `add(ref_id)`, `remove(ref_id)` and `read_single()`, implemented with exactly the open modes, `fcntl.flock` calls, `seek(0)` / `writelines` / `truncate` order and line comparisons the existing code uses; `_update_refs_file`, `_is_string_in_refs_file` and `_read_small_file_content` keep their names and signatures and delegate to it.",
    "path builders: the three builders `_build_hashstore_data_object_path`, `_get_hashstore_pid_refs_path`, `_get_hashstore_cid_refs_path` (and the metadata address computed in `store_metadata` / `retrieve_metadata` / `delete_metadata` / `_put_metadata`) share one private helper that shards a hash and joins it below a given entity directory; the resulting paths, their types (str vs Path) and the hashing of pid / pid+format_id stay exactly as they are for every input.",
    "claims as a higher-order helper: add `_with_claim(self, synchronize, release, identifier, action)` that calls `synchronize(identifier)`, then `action()` inside try / finally with `release(identifier)`, and use it (with bound methods and small local functions or lambdas for `action`) in `_delete_object_only` and in the cid-claimed block of `delete_object`, keeping claim and release points, the order of operations and the exceptions exactly as they are.",
    "`retrieve_object`, `retrieve_metadata`, `get_hex_digest`, `_find_object`: guard clauses instead of nested if/else, one private helper that computes a metadata document's relative address from (pid, format id) and is used wherever that address is computed, consistent local names; every raise keeps its class, message and condition, every existence check stays where it is.",
    "store configuration as a value object: introduce a small frozen dataclass `StoreProperties` (store_path, store_depth, store_width, store_algorithm, store_metadata_namespace) that `_validate_properties` returns (same checks, same int coercion, same errors) and that `__init__`, `_write_properties` and `_verify_hashstore_properties` consume instead of indexing dictionaries, with what is written to and compared with hashstore.yaml unchanged for every input.",
    "publishing and marking helpers: add `_publish(self, tmp_path, permanent_path)` that performs the `shutil.move(tmp, permanent)` and use it at every place a temp file is moved to its permanent address (object, metadata document, pid reference, cid reference), inside exactly the same try / except blocks and in the same order; nothing else changes.",
    "logging consistency: give the module a logger `_LOGGER = logging.getLogger(__name__)` and use it in the static methods and wherever the root `logging.debug/info/warning/error(...)` functions are called directly inside `filehashstore.py` (instance methods may keep `self.fhs_logger`); messages and levels stay the same. Do not touch anything but logging calls.",
    "`hashstore.py` (the abstract interface and `HashStoreFactory`): tidy the factory (`get_hashstore`): clearer local names, early returns, f-strings, type hints, docstring fixes - with the same module / class names accepted, the same import mechanism, the same errors for unsupported names and the same object returned.",
    "emptiness checks: replace the repeated `os.path.getsize(path) == 0` tests on cid reference files by one private static helper `_is_empty_file(path)` that returns exactly `os.path.getsize(path) == 0` (no exception handling added) and use it at every such site; nothing else changes.",
    "`delete_metadata` and `delete_object`: reduce nesting - early returns, loop bodies extracted into private methods (e.g. `_delete_one_metadata_document(pid, path, objects_to_delete)`), keep the per-document claim / re-check / rename / release sequence and the order of `_delete_marked_files` / `delete_metadata` calls exactly.",
    "`Stream`: tidy the helper class - in `__init__` test path arguments with `pathlib.Path(obj).is_file()` and open them with `open(obj, \"rb\")`; in `__iter__` use the walrus form `while data := self._obj.read(self._buffer_size): yield data`; keep the rewind before reading, the restore of a caller-owned stream's position afterwards, `close()` and the buffer-size logic exactly.",
    "`store_object`: hold the pid claim through a small private `@contextmanager` helper `_claimed_pid(pid)` (synchronize, `try: yield`, `finally:` release) and run the store-and-validate step and the tagging inside `with self._claimed_pid(pid):`; the in-progress rejection before it, the error logging around it and everything else stay exactly as they are.",
    "`_update_refs_file`: split the two branches into private methods `_add_ref_to_file(refs_file_path, ref_id)` and `_remove_ref_from_file(refs_file_path, ref_id)` holding exactly the current open / flock / read / write / truncate sequences; `_update_refs_file` keeps its existence check, its logging, its exception handling and dispatches on `update_type`.",
    "`_delete_marked_files` and `_rename_path_for_deletion`: use `pathlib` consistently (`Path(obj).unlink()` inside the same try/except that logs a warning; build the `_delete` name as now), add type hints and clearer local names; `shutil.move` for the rename stays, return values (a `str`) stay.",
]


def props():
    out = {}
    with open(os.path.join(HERE, "properties.jsonl")) as fh:
        for line in fh:
            if line.strip():
                p = json.loads(line)
                out[p["id"]] = p
    return out


def used_for(pid):
    items = []
    for m in sorted(glob.glob(os.path.join(HERE, "seeded", f"{pid}-*", "meta.json"))):
        try:
            items.append(json.load(open(m))["summary"][:300])
        except Exception:  # noqa: BLE001
            pass
    return items + GENERIC_USED


def main():
    os.makedirs(OUT, exist_ok=True)
    kind = sys.argv[1]
    if kind == "seed":
        rnd = int(sys.argv[2])
        P = props()
        ids = sys.argv[3:] or sorted(P)
        for i, pid in enumerate(ids):
            p = P[pid]
            wt = f"/tmp/ws{rnd}_{pid}"
            text = SEED.format(wt=wt, pid=pid, title=p.get("title", ""), statement=p.get("statement", ""),
                               quantifier=(p.get("quantifier") or {}).get("text", "") if isinstance(p.get("quantifier"), dict) else p.get("quantifier", ""), style=STYLES[(int(pid[1:]) + rnd) % len(STYLES)],
                               used="\n".join(" - " + u for u in used_for(pid)))
            fn = os.path.join(OUT, f"{pid}_r{rnd}.txt")
            open(fn, "w").write(text)
            print(fn, wt)
    elif kind == "benign":
        first, n = int(sys.argv[2]), int(sys.argv[3])
        for k in range(n):
            bid = first + k
            wt = f"/tmp/wtb_{bid}"
            fn = os.path.join(OUT, f"benign_{bid}.txt")
            open(fn, "w").write(BENIGN.format(wt=wt, focus=FOCI[(bid - 1) % len(FOCI)]))
            print(fn, wt)


if __name__ == "__main__":
    main()
