"""Run the variant / twin sweep of hsa.variants for every property (or those named): not part of any registered check."""
import sys, json, time
sys.path.insert(0,'/verif')
from hsa.engine import Analysis
from hsa.variants import sweep, VARIANTS
A=Analysis()
props=sorted({v[0] for v in VARIANTS}) if len(sys.argv)<2 else sys.argv[1:]
t=time.time()
for p in props:
    r=sweep(p,A)
    print(p, "variants",r['variants'],"caught",r['caught'],"twins",r['twins'],"silent",r['silent'],"skipped",len(r['skipped']))
    for s in r['skipped']: print("   SKIPPED:", s)
    for m in r['missed']: print("   MISSED:", m)
    for d in r['details']:
        if d.get("variant") and d["expected"] not in d["reported"]: print("   NOT-BY-RULE:", d["variant"], "expected", d["expected"], "reported", d["reported"], "refused", str(d["refused"])[:150])
print("t=%.1f"%(time.time()-t))
