#!/usr/bin/env python3
"""In-memory verdict for one patch file: the patch is applied to the current /repo sources in memory and all 19 checkers
run on the patched program (one process per property).  Nothing touches /repo, so it can run while other checks run.
usage: tools_patch_check.py <patch.diff> [Cnn ...]"""
import multiprocessing as mp
import os
import sys

HERE = os.path.dirname(os.path.abspath(__file__))
sys.path.insert(0, HERE)


def one(args):
    prop, sources = args
    from hsa.loader import Program
    from hsa.engine import Analysis
    from hsa.report import load_known, split_known
    from hsa.rules_common import rules_of
    from hsa.terms import AnalysisError
    try:
        A = Analysis(Program(sources))
        rules = rules_of(A, prop)
        problems = A.problems()
        if problems:
            return prop, "ERR", [problems[0][:300]]
        known = [k for k in load_known().get("known", []) if k.get("property") == prop]
        new, _old = split_known([f for r in rules for f in r.findings], known)
        lost = [r.rid for r in rules if r.floor and len(r.instances) < max(1, (r.floor + 2) // 3)]
        if new:
            return prop, "VIOLATION", [f.line()[:330] for f in new[:6]]
        if lost:
            return prop, "ERR", [f"rule(s) {lost} lost their anchors"]
        return prop, "OK", []
    except AnalysisError as e:
        return prop, "ERR", [str(e)[:300]]
    except Exception as e:  # noqa: BLE001
        return prop, "ERR", [f"internal error: {type(e).__name__}: {e}"[:300]]


def main():
    from hsa.loader import read_sources
    from hsa.variants import apply_unified_diff
    from hsa.__main__ import registry
    base = read_sources("/repo/src/hashstore")
    src = apply_unified_diff(base, open(sys.argv[1]).read())
    if src is None:
        print("PATCH DOES NOT APPLY")
        sys.exit(2)
    props = sys.argv[2:] or sorted(registry())
    with mp.get_context("fork").Pool(min(16, len(props))) as pool:
        res = pool.map(one, [(p, src) for p in props], chunksize=1)
    viol = [p for p, v, _ in res if v == "VIOLATION"]
    errs = [p for p, v, _ in res if v == "ERR"]
    print("violations:", viol, "analysis errors:", errs)
    for p, v, lines in res:
        for l in lines:
            print(f"   {p} {v}: {l}")


if __name__ == "__main__":
    main()
