"""Rules for C03, C04, C05, C09, C10, C11, C15, C18 (paths, bookkeeping, layout)."""
