"""Rules for C03, C04, C05, C09, C10, C11, C15, C18 (paths, bookkeeping, layout)."""

from __future__ import annotations

import ast

from . import facts as F
from .engine import Analysis, CLS, PUBLIC_API
from .loader import norm
from .report import Rule
from .rules_common import rules_of
from .rules_common import (digest_checked_before_delete, MUT, primary, base_class, key_matches, showlock, site_text, site_func, site_loc,
                           mutation_events, resource_hits, func_nodes)
from .terms import (AnalysisError, show, showv, tag, C, P, V, NONE, EMPTY, classify, is_rooted, is_summary,
                    subterms, PathClass, is_const)

Q = lambda n: f"{CLS}.{n}"  # noqa: E731
REJECT = ("HashStoreRefsAlreadyExists", "PidRefsAlreadyExistsError")
ALL_MODES = ("th", "mp")


def all_events(A, entries=PUBLIC_API, modes=("th",)):
    for m in modes:
        for e in entries:
            it = A.api(e, m)
            for ev in it.events:
                yield it, ev


def probe_atoms(facts, kind, cls_name):
    """atoms ("probe", kind, paths, muts) in the fact set whose path is of class cls_name"""
    out = []
    for f, pol in facts:
        for a in F.atoms_of(f):
            if a[0] == "probe" and a[1] == kind and any(classify(t).cls == cls_name for t in a[2]):
                out.append(a)
    return out


def probe_first(facts, kind, cls_name):
    """the atoms of the EARLIEST epoch (fewest own mutations before the probe) among probe_atoms"""
    at = probe_atoms(facts, kind, cls_name)
    if not at:
        return []
    m = min(len(a[3]) for a in at)
    return [a for a in at if len(a[3]) == m]


def probe_last(facts, kind, cls_name):
    """the atoms of the LATEST epoch among probe_atoms"""
    at = probe_atoms(facts, kind, cls_name)
    if not at:
        return []
    m = max(len(a[3]) for a in at)
    return [a for a in at if len(a[3]) == m]


def ev_muts_since_tagging(ev, atom):
    """mutations recorded in the probe's epoch that belong to the tagging step itself (a probe
    evaluated after the tagging step started writing is not the four-way split)"""
    return {u for u in atom[3] if Q("_store_hashstore_refs_files") in (u[0],) or u[0] in (Q("_write_refs_file"), Q("_update_refs_file"))}


def has_cmp_fact(facts, pred):
    for f, pol in facts:
        for a in F.atoms_of(f):
            if a[0] == "cmp" and pred(a):
                v = F.implied(facts, a)
                if v is not None:
                    return a, v
    return None, None


def emptiness_guard(ev, k):
    """the event is control-dependent on `getsize(CIDREFS(k)) == 0` being true"""
    def pred(a):
        sides = [a[2], a[3]]
        zero = any(s == V(C(0)) for s in sides)
        pr = any(any(tag(t) == "probe" and t[1] == "getsize" and any(classify(p).cls == "CIDREFS" and classify(p).key == k for p in t[2])
                     for t in s) for s in sides)
        return zero and pr and a[1] == "=="
    a, v = has_cmp_fact(ev.facts, pred)
    return a is not None and v is True, a


# =======================================================================================
def check_C03(A: Analysis, tier):
    rules = []
    ra = Rule("C03", "C03.a", "while tagging, every state-changing primitive is reached only on paths where the pid "
              "reference file was tested absent (reject before write)", floor=6)
    for m in ALL_MODES:
        for e in ("tag_object", "store_object"):
            it = A.api(e, m)
            for ev in it.events:
                if ev.kind not in MUT or Q("_store_hashstore_refs_files") not in ev.ctx or Q("_untag_object") in ev.ctx:
                    continue
                ra.ob()
                ra.inst(f"{ev.func.qual}:{ev.line} {ev.kind} {ev.prim}")
                tagging = (Q("_store_hashstore_refs_files"), Q("_write_refs_file"), Q("_update_refs_file"), Q("_mktmpfile"))
                atoms = [a for a in probe_atoms(ev.facts, "isfile", "PIDREFS")
                         if not any(u[0] in tagging and u in ev_muts_since_tagging(ev, a) for u in a[3])]
                ok = any(F.implied(ev.facts, a) is False for a in atoms)
                if not ok:
                    ra.fail(site_func(ev), site_text(ev),
                            "state-changing primitive reachable while the pid reference file may exist: a re-tag of a "
                            "bound pid would write before (or instead of) being rejected", site_loc(A, ev))
    rules.append(ra)

    rb = Rule("C03", "C03.b", "the two rejection errors never reach the roll-back (_untag_object) and leave "
              "_store_hashstore_refs_files as the same class", floor=2)
    rc = Rule("C03", "C03.c", "tag_object / store_object re-raise each rejection class unchanged", floor=2)
    for m in ALL_MODES:
        it = A.api("tag_object", m)
        raised_inside = set()
        for (fn, h, label, ctx, o) in it.handler_runs:
            if label in REJECT:
                raised_inside.add(label)
                target = rb if fn.qual == Q("_store_hashstore_refs_files") else rc
                if fn.qual not in (Q("_store_hashstore_refs_files"), A.impl_q("tag_object"), A.impl_q("store_object")):
                    continue
                target.ob()
                target.inst(f"{fn.qual}:{h.lineno} handler for {label}")
                outs = set(o.raises)
                if outs != {label} or o.normal is not None or o.ret is not None:
                    target.fail(fn, h.type if h.type is not None else "except:",
                                f"handler entered with {label} leaves as {sorted(outs) or 'normal completion'}: the "
                                "documented rejection class is not preserved", A.p.loc(fn, h))
        for c in it.calls:
            if c["callee"] == Q("_untag_object"):
                rb.ob()
                if any(l in REJECT for l in c["state"].handling):
                    rb.fail(c["func"], c["node"], "roll-back (_untag_object) is reachable while handling a rejection error: "
                            "a rejected re-tag would delete the existing binding", A.p.loc(c["func"], c["node"]))
        labs = {l for k, l, s, _ in it.exits if k == "raise"}
        for l in REJECT:
            rc.ob()
            if l not in labs:
                rc.fail(Q("tag_object"), l, f"{l} can no longer leave tag_object: the documented already-exists error is lost")
    rules += [rb, rc]

    re_ = Rule("C03", "C03.e", "the tagging roll-back never runs on a path where the pid reference file was found "
               "present by the four-way split (it may only undo what this call wrote)", floor=1)
    for m in ALL_MODES:
        for e in ("tag_object", "store_object"):
            it = A.api(e, m)
            for c in it.calls:
                if c["callee"] != Q("_untag_object"):
                    continue
                re_.ob()
                re_.inst(f"{c['func'].qual}:{c['node'].lineno} roll-back call [{e}/{m}]")
                facts = c["state"].facts
                tagging = (Q("_store_hashstore_refs_files"), Q("_write_refs_file"), Q("_update_refs_file"))
                atoms = [a for a in probe_atoms(facts, "isfile", "PIDREFS") if not any(u[0] in tagging for u in a[3])]
                if any(F.implied(facts, a) is True for a in atoms):
                    re_.fail(c["func"], c["node"], "the roll-back is reachable on a path where the pid reference file already existed when "
                             "tagging began: an error while *rejecting* a re-tag would delete the existing binding",
                             A.p.loc(c["func"], c["node"]))
    rules.append(re_)

    rf = Rule("C03", "C03.f", "the existence test that decides between rejecting and binding a pid is made inside the pid's "
              "tagging claim (shared with C07.b): a test made before queueing on the claim is stale when the claim is obtained", floor=2)
    from .rules_locks import stale_check_rule, GUARDS_OF
    stale_check_rule(A, rf, ["tag_object", "store_object"], ("PIDREFS",), GUARDS_OF)
    rules.append(rf)

    rd = Rule("C03", "C03.d", "a pid reference file is renamed away / removed only from delete_object and the "
              "tagging roll-back", floor=2)
    for it, ev in all_events(A, PUBLIC_API, ALL_MODES):
        if ev.kind in ("RENAME", "REMOVE"):
            for i, c in resource_hits(ev, {"PIDREFS"}):
                if i != 0:
                    continue
                rd.ob()
                rd.inst(f"{site_func(ev)}: `{site_text(ev)[:60]}`")
                if site_func(ev) not in (Q("delete_object"), Q("_untag_object")) and not any(q in ev.ctx for q in (Q("delete_object"), Q("_untag_object"))):
                    rd.fail(site_func(ev), site_text(ev), "a pid reference is unbound outside delete_object / roll-back",
                            site_loc(A, ev))
    rules.append(rd)
    rh3 = Rule("C03", "C03.h", "the tagging roll-back changes a reference file only after its guard has returned: the pid's reference is renamed "
               "away only once the cid it names was compared with the cid of the failed request (a pid bound to ANOTHER object keeps its binding "
               "when a re-tag of it fails), a cid list is changed only once the cid claim was confirmed", floor=3)
    guard, lockchk = A.impl_q("_validate_and_check_cid_lock"), A.impl_q("_check_object_locked_cids")
    seen3 = set()
    for e in ("tag_object", "store_object"):
        for m in ALL_MODES:
            it = A.api(e, m)
            for ev in it.events:
                if Q("_untag_object") not in ev.ctx or ev.kind not in ("RENAME", "REMOVE", "WRITE"):
                    continue
                for i, c in resource_hits(ev, {"PIDREFS", "CIDREFS"}):
                    if i != 0:
                        continue
                    rh3.ob()
                    need = guard if base_class(c).cls == "PIDREFS" else lockchk
                    k = (site_func(ev), site_text(ev), base_class(c).cls)
                    if k not in seen3:
                        seen3.add(k)
                        rh3.inst(f"{site_func(ev)}: `{site_text(ev)[:50]}` on {base_class(c).cls}")
                    if ("call", need) not in ev.done and ("call", guard) not in ev.done:
                        rh3.fail(site_func(ev), site_text(ev), f"the roll-back performs {ev.kind} on {base_class(c).cls} on a path on which {need.split('.')[-1]} has not "
                                 "returned yet: when the failed request named another cid than the one the pid is bound to, the pid loses its (valid) binding "
                                 "before the mismatch is noticed", site_loc(A, ev), {"entry": e, "mode": m})
    rules.append(rh3)
    from .rules_locks import release_held_rule
    rg3 = Rule("C03", "C03.g", "the tagging claim on a pid (reference_locked_pids), inside which bind-or-reject is decided, is released "
               "only by the call that holds it (shared with C07.f)", floor=2)
    release_held_rule(A, rg3, ["store_object", "tag_object", "delete_object"], only_cls="reference_locked_pids")
    rules.append(rg3)
    # bind-or-reject is decided under a claim; between processes that claim exists only on the multiprocessing side of the constructor
    _src = [r for r in rules_of(A, "C16") if r.rid == "C16.e"][0]
    ri3 = Rule("C03", "C03.i", "the claims under which bind-or-reject is decided are process-shared exactly when the documented switch is set "
               "(shared with C16.e): with USE_MULTIPROCESSING=True the constructor takes the multiprocessing side, so two worker processes cannot both "
               "find a pid unbound", floor=_src.floor)
    ri3.instances, ri3.nontrivial, ri3.obligations = list(_src.instances), set(_src.nontrivial), _src.obligations
    for f in _src.findings:
        ri3.fail(f.func, f.construct, f.message, f.loc, f.detail)
    rules.append(ri3)
    return rules


# =======================================================================================
OBJ_DELETERS = {
    Q("delete_object"): "last reference removed: rename-for-deletion of the object under the emptiness guard",
    Q("_delete_object_only"): "delete_if_invalid_object: only when no cid reference file exists",
    Q("_move_and_get_checksums"): "fault path only: the handler that runs after shutil.move raised",
}


def check_C04(A: Analysis, tier):
    rules = []
    ra = Rule("C04", "C04.a", "only the tabled deleters rename away or remove a file of class OBJ", floor=3)
    rb = Rule("C04", "C04.b", "each deleter is control-dependent on the cid reference list being empty/absent, "
              "tested under the cid claim (delete_object: after the remove-update)", floor=2)
    for it, ev in all_events(A, PUBLIC_API, ALL_MODES):
        if ev.kind not in ("RENAME", "REMOVE"):
            continue
        for i, c in resource_hits(ev, {"OBJ"}):
            if i != 0:
                continue
            sf = site_func(ev)
            # the deleter is identified by the call string (its work may live in a private helper)
            for q in (Q("_delete_object_only"), Q("_move_and_get_checksums"), Q("delete_object")):
                if q in ev.ctx:
                    sf = q
                    break
            ra.ob()
            ra.inst(f"{sf}: `{site_text(ev)[:60]}`")
            if sf not in OBJ_DELETERS:
                ra.fail(site_func(ev), site_text(ev), "an object file is removed by a function that is not one of the three "
                        "reference-guarded deleters", site_loc(A, ev))
                continue
            if sf == Q("_delete_object_only") and it.entry != Q("delete_if_invalid_object"):
                # its guard - "no cid list (yet)" - is also true of content a concurrent store_object has just
                # stored (or found) and is about to tag: only the caller who stored the object without a pid and
                # found it invalid may decide that nothing will ever refer to it
                ra.fail(site_func(ev), site_text(ev), f"_delete_object_only runs as part of {it.entry.split('.')[-1]}: the object of another, not yet tagged, "
                        "store of the same content is removed (the absence of a cid list does not show that the object is nobody's)",
                        site_loc(A, ev), {"entry": it.entry})
                continue
            if sf == Q("_move_and_get_checksums"):
                if not ev.handling:
                    ra.fail(sf, site_text(ev), "object removal in _move_and_get_checksums outside the failed-move handler",
                            site_loc(A, ev))
                elif not digest_checked_before_delete(ev):
                    ra.fail(sf, site_text(ev), "the failed-move handler removes the file at the permanent address on a path on which it has not read and hashed "
                            "it (get_hex_digest did not return): the complete object a concurrent store of the same content has just published is removed",
                            site_loc(A, ev))
                continue
            rb.ob()
            rb.inst(f"{sf}: `{site_text(ev)[:60]}` [{it.entry.split('.')[-1]}/{it.mode}]")
            lock_ok = any(l[0] == "object_locked_cids" and key_matches(l, c) for l in ev.held_must)
            if sf == Q("delete_object"):
                ok, atom = emptiness_guard(ev, c.key)
                upd = atom is not None and any(tag(t) == "probe" and t[3] for s in (atom[2], atom[3]) for t in s)
                if not ok:
                    rb.fail(sf, site_text(ev), "the object is renamed for deletion on a path where the cid reference "
                            "list was not tested empty: an object still referenced by other pids would be removed", site_loc(A, ev))
                elif not upd or ("prim", "WRITE", 0, "CIDREFS") not in ev.done:
                    rb.fail(sf, site_text(ev), "emptiness of the cid reference list is tested before this pid was removed from it",
                            site_loc(A, ev))
            else:
                atoms = probe_atoms(ev.facts, "isfile", "CIDREFS")
                atoms = [a for a in atoms if any(classify(t).key == c.key for t in a[2])]
                if not any(F.implied(ev.facts, a) is False for a in atoms):
                    rb.fail(sf, site_text(ev), "the object is removed on a path where the cid reference file was not "
                            "tested absent: delete_if_invalid_object would delete a referenced object", site_loc(A, ev))
            guard_in = any(p[0] == "CIDREFS" and p[1] == c.key and any(l[0] == "object_locked_cids" and key_matches(l, c) and l in ev.held_must for l in p[2])
                           for p in ev.probes)
            if not lock_ok or not guard_in:
                rb.fail(sf, site_text(ev), "the object removal and the reference-list test it depends on are not inside one critical section of the "
                        "cid claim: a pid can be tagged between the test and the removal", site_loc(A, ev))
    rules += [ra, rb]

    rc = Rule("C04", "C04.c", "on the duplicate-content branch (object already present) no primitive writes, "
              "renames onto or removes the object", floor=1)
    for m in ALL_MODES:
        it = A.api("store_object", m)
        for ev in it.events:
            if ev.func.qual != Q("_move_and_get_checksums") and Q("_move_and_get_checksums") not in ev.ctx:
                continue
            atoms = probe_first(ev.facts, "isfile", "OBJ")     # the test that decides "already stored", not a re-test after a failed move
            if not any(F.implied(ev.facts, a) is True for a in atoms):
                continue
            rc.ob()
            rc.inst(f"{ev.func.qual}:{ev.line} {ev.kind} on the object-exists branch", nontrivial=ev.kind in MUT)
            if ev.kind in MUT and any(c.cls == "OBJ" for cs in ev.classes for c in primary(cs)):
                rc.fail(site_func(ev), site_text(ev), "the already-stored object is modified while de-duplicating",
                        site_loc(A, ev))
    rules.append(rc)

    rd = Rule("C04", "C04.d", "store/retrieve/delete_metadata touch only metadata documents, their directory, "
              "their temp and marker files (effect classes)", floor=3)
    allowed = {"META", "METADIR", "TMP", "TMPDIR", "MARKER", "EXTERNAL", "PARENTDIR", "ENTITYDIR"}
    for m in ALL_MODES:
        for e in ("store_metadata", "retrieve_metadata", "delete_metadata"):
            it = A.api(e, m)
            rd.inst(f"{e} [{m}]: {len(it.events)} primitive events")
            for ev in it.events:
                if ev.kind not in MUT and ev.kind != "MKDIR":
                    continue
                rd.ob()
                for i, cs in enumerate(ev.classes):
                    if ev.prim.startswith("file.") and i > 0:
                        continue
                    for c in primary(cs):
                        b = base_class(c)
                        bad = c.cls not in allowed or (c.cls in ("TMP", "TMPDIR") and c.key != C("metadata")) \
                            or (c.cls == "MARKER" and b.cls != "META")
                        if bad and c.cls not in ("BOGUS", "FALLBACK", "RAWID", "RELATIVE"):
                            rd.fail(site_func(ev), site_text(ev), f"metadata call has effect {ev.kind} on {c!r}: "
                                    "metadata operations must not touch objects or references", site_loc(A, ev))
    rules.append(rd)

    re4 = Rule("C04", "C04.e", "membership in / removal from a cid list compares the pid with the stripped whole line "
               "(a pid is counted as referencing the object exactly when its own line is there)", floor=2)
    whole_line_rule(A, re4)
    rules.append(re4)

    rf = Rule("C04", "C04.f", "delete_object's main branch renames the cid list and the object for deletion under "
              "the emptiness guard and hands both markers to _delete_marked_files", floor=2)
    for m in ALL_MODES:
        it = A.api("delete_object", m)
        got = {"OBJ": False, "CIDREFS": False}
        for ev in it.events:
            if ev.kind == "RENAME" and not ev.handling and Q("delete_object") in ev.ctx and Q("delete_metadata") not in ev.ctx:
                for i, c in resource_hits(ev, {"OBJ", "CIDREFS"}):
                    if i == 0 and emptiness_guard(ev, c.key)[0]:
                        got[c.cls] = True
                        rf.inst(f"delete_object [{m}]: `{site_text(ev)[:60]}` under emptiness guard")
        for k, v in got.items():
            rf.ob()
            if not v:
                rf.fail(Q("delete_object"), f"rename-for-deletion of {k}", f"when the last pid is deleted the {k} file is no "
                        "longer marked for deletion: an unreferenced object / empty list is left behind")
    rules.append(rf)
    _src = [r for r in rules_of(A, "C10") if r.rid == "C10.a"][0]
    _sh = Rule("C04", "C04.i", 'delete_object unbinds the pid (renames its reference away) before it takes the pid out of the cid list, and the object goes last (shared with C10.a): a delete interrupted in between must not leave a bound pid that the list no longer counts', floor=_src.floor)
    _sh.instances, _sh.nontrivial, _sh.obligations = list(_src.instances), set(_src.nontrivial), _src.obligations
    for f in _src.findings:
        if "delete_object" in f.func or "delete_object" in str(f.detail) or "renamed away" in f.message or "before the pid reference" in f.message:
            _sh.fail(f.func, f.construct, f.message, f.loc, f.detail)
    rules.append(_sh)
    from .rules_locks import no_dir_removal_rule, store_tag_claim_rule
    rj4 = Rule("C04", "C04.j", "store_object tags inside its own pid claim (shared with C07.k): released earlier, a delete_object of the same pid can remove "
               "the object between the 'already present' decision and the tagging, and the pid is bound to a removed object", floor=4)
    store_tag_claim_rule(A, rj4)
    rules.append(rj4)
    rh4 = Rule("C04", "C04.h", "no call removes a directory of the store (shared with C07.h): a shard directory holds the objects, lists and "
               "references of every identifier with the same prefix, so removing one (rmtree, or rmdir after a wrong emptiness test) takes other pids' data", floor=3)
    no_dir_removal_rule(A, rh4)
    rules.append(rh4)
    # the tagging roll-back unbinds a pid (and shrinks its cid list): run for a pid that was already bound it makes
    # the object look unreferenced to the next delete_object of another pid
    c3 = [r for r in rules_of(A, "C03") if r.rid == "C03.e"][0]
    rg4 = Rule("C04", "C04.g", "the tagging roll-back never unbinds a pid that was bound before the call (shared with C03.e): otherwise the "
               "object is deleted with its last *listed* pid while that pid still refers to it", floor=c3.floor)
    rg4.instances, rg4.nontrivial, rg4.obligations = list(c3.instances), set(c3.nontrivial), c3.obligations
    for f in c3.findings:
        rg4.fail(f.func, f.construct, f.message, f.loc, f.detail)
    rules.append(rg4)
    return rules


# =======================================================================================
FAILS_ON_MISSING = {"READ", "WRITE", "CREATE", "REMOVE", "RENAME"}


def check_C05(A: Analysis, tier):
    rules = []
    ra = Rule("C05", "C05.a", "no path is read, written, sized, renamed or removed after the same call renamed it "
              "away (typestate per path term)", floor=8)
    for it, ev in all_events(A, PUBLIC_API, ALL_MODES):
        if ev.kind == "RENAME":
            ra.inst(f"{site_func(ev)}: `{site_text(ev)[:60]}`")
        if not ev.paths:
            continue
        uses = ev.kind in FAILS_ON_MISSING or ev.prim in ("os.path.getsize", "os.stat", "os.listdir")
        if not uses:
            continue
        ra.ob()
        for t in ev.paths[0]:
            if t in ev.gone and not is_summary(t) and classify(t).cls in ("PIDREFS", "CIDREFS", "OBJ", "META", "TMP"):
                ra.fail(site_func(ev), site_text(ev), f"{classify(t)!r} is used ({ev.kind} {ev.prim}) after it was renamed away or removed "
                        f"earlier in the same call (entry {it.entry.split('.')[-1]}): the operation fails with FileNotFoundError "
                        "and the clean-up cannot complete", site_loc(A, ev), {"entry": it.entry, "handling": list(ev.handling)})
    rules.append(ra)

    rb = Rule("C05", "C05.b", "every deletion marker produced is handed to a removal on every normal "
              "continuation (may-pending set empty at normal exit)", floor=9)
    re_ = Rule("C05", "C05.e", "every temp file produced is renamed into place or removed on every normal "
               "continuation (may-temp set empty at normal exit)", floor=9)
    for it in A.all_api_runs():
        nm = 0
        nt = 0
        for ev in it.events:
            if ev.kind == "RENAME" and any(c.cls == "MARKER" for c in ev.classes[1]):
                nm += 1
            if ev.kind == "CREATE" and ev.prim.endswith("NamedTemporaryFile"):
                nt += 1
        rb.inst(f"{it.entry} [{it.mode}]: {nm} marker-producing rename event(s)", nontrivial=nm > 0)
        re_.inst(f"{it.entry} [{it.mode}]: {nt} temp-file creation event(s)", nontrivial=nt > 0)
        for kind, label, st, _ in it.exits:
            if kind != "return":
                continue
            rb.ob()
            re_.ob()
            for t in sorted(st.pending, key=repr):
                rb.fail(it.entry, f"marker of {classify(t).key!r}", f"a `*_delete` marker for {classify(t).key!r} can survive a "
                        f"successful {it.entry.split('.')[-1]}: it is renamed but not handed to _delete_marked_files on some normal path")
            for t in sorted(st.tmps, key=repr):
                re_.fail(it.entry, f"temp file in {show(t[1])}", f"a temp file created in {show(t[1])} can survive a successful "
                         f"{it.entry.split('.')[-1]}: neither renamed into place nor removed on some normal path")
        for kind, label, st, _ in it.exits:
            if kind == "raise" and label in REJECT:
                re_.ob()
                for t in sorted(st.tmps, key=repr):
                    if classify(t).key == C("refs"):
                        re_.fail(it.entry, f"temp file in {show(t[1])} on {label}", f"a rejected tagging ({label}) of {it.entry.split('.')[-1]} "
                                 f"leaves a temp file in {show(t[1])}")
    rules += [rb, re_]

    rc = Rule("C05", "C05.c", "after every remove-update of a cid reference list the same call tests the list for "
              "emptiness and renames the emptied list for deletion", floor=3)
    rd_sites = {}
    for m in ALL_MODES:
        for e in ("delete_object", "tag_object"):
            it = A.api(e, m)
            for c in it.calls:
                if c["callee"] != Q("_update_refs_file"):
                    continue
                am = c.get("argmap", {})
                if am.get("update_type") != V(C("remove")):
                    continue
                key = (c["func"].qual, norm(c["node"]))
                q = am.get("refs_file_path", EMPTY)
                rec = rd_sites.setdefault(key, {"call": c, "ok": False})
                rc.ob()
                for ev in it.events:
                    if ev.kind == "RENAME" and ev.ctx[:len(c["ctx"])] == c["ctx"] and ev.handling == c["state"].handling \
                            and ev.paths[0] & q:
                        for t in ev.paths[0] & q:
                            cc = classify(t)
                            if cc.cls == "CIDREFS" and emptiness_guard(ev, cc.key)[0]:
                                rec["ok"] = True
    for (fn, tx), rec in sorted(rd_sites.items()):
        rc.inst(f"{fn}: `{tx[:70]}`")
        if not rec["ok"]:
            c = rec["call"]
            rc.fail(fn, tx, "the pid is removed from the cid reference list but the list is never tested for emptiness "
                    "here: an empty list (naming no pid) is left behind", A.p.loc(c["func"], c["node"]))
    rules.append(rc)

    rd = Rule("C05", "C05.d", "delete_object and the tagging roll-back perform the same reference mutations for each "
              "inconsistency class they both handle", floor=3)

    def actions(events, label, want_ctx):
        acts = set()
        for ev in events:
            if not ev.handling or ev.handling[-1] != label or not want_ctx(ev):
                continue
            if ev.kind == "RENAME":
                for i, c in resource_hits(ev, {"PIDREFS", "CIDREFS"}):
                    if i == 0:
                        acts.add(f"rename-away {c.cls}" + (" when empty" if c.cls == "CIDREFS" else ""))
            if ev.kind == "WRITE" and ev.prim == "file.truncate":
                for i, c in resource_hits(ev, {"CIDREFS"}):
                    acts.add("remove pid from CIDREFS")
        return acts

    for m in ALL_MODES:
        d = A.api("delete_object", m)
        t = A.api("tag_object", m)
        dl = {lab for (fn, h, lab, ctx, o) in d.handler_runs if fn.qual == A.impl_q("delete_object")}
        tl = {lab for (fn, h, lab, ctx, o) in t.handler_runs if fn.qual == Q("_untag_object")}
        for lab in sorted(dl & tl):
            if lab not in A.p.exc_classes:
                continue
            rd.ob()
            da = actions(d.events, lab, lambda ev: ev.ctx[0] == Q("delete_object") and len(ev.handling) == 1)
            ta = actions(t.events, lab, lambda ev: Q("_untag_object") in ev.ctx)
            rd.inst(f"{lab} [{m}]: delete_object {sorted(da)} / _untag_object {sorted(ta)}")
            if da != ta:
                h = [h for (fn, h, l2, ctx, o) in d.handler_runs if fn.qual == A.impl_q("delete_object") and l2 == lab][0]
                rd.fail(Q("delete_object"), f"except {lab}", f"clean-up for {lab} differs between the two siblings: delete_object does "
                        f"{sorted(da)}, the roll-back does {sorted(ta)}", A.p.loc(A.p.func(Q("delete_object")), h))
    rules.append(rd)

    # the line format of the cid list is what "appears exactly once in exactly that list" rests on
    c15 = [r for r in rules_of(A, "C15") if r.rid == "C15.c"][0]
    rg5 = Rule("C05", "C05.g", "a cid list comes into being by a rename only where it was tested absent: a list that may already exist "
               "(and name other pids) is extended or rewritten from its own lines, never replaced by a fresh one-line file", floor=2)
    for m in ALL_MODES:
        for e in ("store_object", "tag_object"):
            it = A.api(e, m)
            for ev in it.events:
                if ev.kind != "RENAME":
                    continue
                for c in primary(ev.classes[1]):
                    if c.cls != "CIDREFS":
                        continue
                    rg5.ob()
                    rg5.inst(f"{site_func(ev)}: `{site_text(ev)[:60]}` creates the cid list [{e}]")
                    atoms = [a for a in probe_atoms(ev.facts, "isfile", "CIDREFS") if any(classify(t).key == c.key for t in a[2])]
                    if not any(F.implied(ev.facts, a) is False for a in atoms):
                        rg5.fail(site_func(ev), site_text(ev), "a fresh cid list is renamed into place on a path where the existing list was not tested "
                                 "absent: the pids it already names are dropped from the list (their objects then look unreferenced)", site_loc(A, ev))
    rules.append(rg5)

    rf = Rule("C05", "C05.f", "every writer of a cid list keeps one `pid + newline` per line (shared with C15.c): a list "
              "rewritten without its final newline makes the next appended pid merge with the last line", floor=c15.floor)
    rf.instances, rf.nontrivial, rf.obligations = list(c15.instances), set(c15.nontrivial), c15.obligations
    for f in c15.findings:
        rf.fail(f.func, f.construct, f.message, f.loc, f.detail)
    rules.append(rf)
    rh5 = Rule("C05", "C05.h", "delete_object has a clean-up branch for every partial reference condition the pid look-up classifies "
               "(\"clears the pid from whatever partial reference condition the public API itself can create\"; shared with C10.b)", floor=3)
    cleanup_branch_rule(A, rh5, rollback=False)
    rules.append(rh5)
    return rules


# =======================================================================================
ENTITY_OF = {"OBJ": "objects", "META": "metadata", "PIDREFS": "refs", "CIDREFS": "refs"}


def check_C09(A: Analysis, tier):
    rules = []
    ra = Rule("C09", "C09.a", "no file of class OBJ, META or PIDREFS is ever opened for writing or created in place; "
              "those classes appear only as the destination of a rename from a temp file (or as rename source / read)", floor=4)
    rb = Rule("C09", "C09.b", "the temp file of a publishing rename lives in the tmp directory of the same entity "
              "tree as its destination", floor=4)
    rc = Rule("C09", "C09.c", "the handle that wrote the temp file is closed on every path before the publishing rename", floor=4)
    rd = Rule("C09", "C09.d", "a permanent file leaves its address only by one rename to a `_delete` marker or one remove", floor=4)
    for it, ev in all_events(A, PUBLIC_API, ALL_MODES):
        if ev.kind in ("CREATE", "WRITE"):
            for i, c in resource_hits(ev, {"OBJ", "META", "PIDREFS"}):
                if i != 0:
                    continue
                ra.ob()
                ra.fail(site_func(ev), site_text(ev), f"{ev.prim} ({ev.extra.get('mode', ev.kind)}) acts in place on a permanent "
                        f"{c.cls} file: a reader or a crash can observe it half-written", site_loc(A, ev))
        if ev.kind == "RENAME":
            dst = [c for c in primary(ev.classes[1]) if c.cls in ("OBJ", "META", "PIDREFS", "CIDREFS")]
            src = primary(ev.classes[0])
            for c in dst:
                ra.ob()
                tx = f"{site_func(ev)}: `{site_text(ev)[:60]}` -> {c.cls}"
                ra.inst(tx)
                rb.inst(tx)
                rc.inst(tx)
                rb.ob()
                rc.ob()
                if not src or any(s.cls != "TMP" for s in src):
                    ra.fail(site_func(ev), site_text(ev), f"{c.cls} is published by renaming from {src!r}, not from a temp file", site_loc(A, ev))
                    continue
                if any(s.key != C(ENTITY_OF[c.cls]) for s in src):
                    rb.fail(site_func(ev), site_text(ev), f"temp file staged in {[show(s.key) for s in src]} is renamed into the "
                            f"{ENTITY_OF[c.cls]} tree: not a same-directory-tree rename, publication is not one step", site_loc(A, ev))
                for t in ev.paths[0]:
                    if ("closed", t) not in ev.done:
                        rc.fail(site_func(ev), site_text(ev), "the temp file may still be open for writing (not closed on every "
                                "path) when it is renamed to its permanent address", site_loc(A, ev))
            for i, c in resource_hits(ev, {"OBJ", "META", "PIDREFS"}):
                if i == 0:
                    rd.ob()
                    rd.inst(f"{site_func(ev)}: `{site_text(ev)[:60]}` {c.cls} -> marker")
                    if not all(d.cls == "MARKER" for d in primary(ev.classes[1])):
                        rd.fail(site_func(ev), site_text(ev), f"{c.cls} is renamed to something that is not a `_delete` marker", site_loc(A, ev))
    rules += [ra, rb, rc, rd]

    re9 = Rule("C09", "C09.e", "every handle the package writes through is a buffered writer: the package never looks at the count "
               "write() returns, and only a buffered writer writes all of its argument or raises (an unbuffered raw file may write "
               "part of it and return normally)", floor=4)
    seen9 = set()
    for it, ev in all_events(A, PUBLIC_API, ("th",)):
        writer = (ev.prim == "open" and ev.kind in ("CREATE", "WRITE")) or ev.prim == "tempfile.NamedTemporaryFile" or ev.prim == "os.write"
        if not writer:
            continue
        k9 = (ev.func.qual, ev.line)
        if k9 in seen9:
            continue
        seen9.add(k9)
        re9.ob()
        re9.inst(f"{ev.func.qual}:{ev.line} {ev.prim} mode={ev.extra.get('mode')}")
        if ev.prim == "os.write":
            re9.fail(ev.func, ev.node, "os.write may write fewer bytes than given; its result is not what decides completion anywhere in the package",
                     A.p.loc(ev.func, ev.node))
            continue
        b = ev.extra.get("buffering")
        if b is not None and not all(is_const_int_buffered(t) for t in b):
            re9.fail(ev.func, ev.node, f"the file is opened for writing with buffering={showv(b)}: an unbuffered (raw) writer can perform a short "
                     "write without raising, and no write site checks the returned count - a truncated file would be published under the digest of the full content",
                     A.p.loc(ev.func, ev.node))
    rules.append(re9)
    from .rules_data import check_C01
    c1e = [r for r in rules_of(A, "C01") if r.rid == "C01.e"][0]
    rf9 = Rule("C09", "C09.f", "what is renamed to objects/<digest> holds every byte that was hashed (shared with C01.e): a temp file written with "
               "gaps or a dropped tail is, once published, indistinguishable from a half-written object", floor=c1e.floor)
    rf9.instances, rf9.nontrivial, rf9.obligations = list(c1e.instances), set(c1e.nontrivial), c1e.obligations
    for f in c1e.findings:
        rf9.fail(f.func, f.construct, f.message, f.loc, f.detail)
    rules.append(rf9)
    c1d = [r for r in rules_of(A, "C01") if r.rid == "C01.d"][0]
    rg9 = Rule("C09", "C09.g", "the spool file that is renamed into place received the whole of what the caller supplied (shared with C01.d): the stream wrapper reads "
               "from offset 0 until an empty read - a metadata document or object cut short by the reader is a version nobody supplied", floor=c1d.floor)
    rg9.instances, rg9.nontrivial, rg9.obligations = list(c1d.instances), set(c1d.nontrivial), c1d.obligations
    for f in c1d.findings:
        if f.func.startswith("Stream."):
            rg9.fail(f.func, f.construct, f.message, f.loc, f.detail)
    rules.append(rg9)
    return rules


def is_const_int_buffered(t):
    """a literal buffering argument that keeps a buffered writer: -1 (default), 1 (line) or a size > 1"""
    return tag(t) == "const" and isinstance(t[1], int) and not isinstance(t[1], bool) and t[1] != 0


# =======================================================================================
def cleanup_branch_rule(A, rule, rollback):
    """every inconsistency class the pid look-up raises is caught in delete_object (and, with `rollback`, in the tagging
    roll-back): by a handler of a try that contains the look-up call, or - whatever the nesting of helpers - by a handler
    of that function which the interpreter has seen catching the class"""
    # the store's own exception classes with which the look-up can end (read off its interpreted exits, so that a look-up
    # split over helpers keeps its classes)
    raised = {l for k, l, _st, _rv in A.run(Q("_find_object"), "th").exits if k == "raise" and l in A.p.exc_classes}

    def handled(fq, entry):
        out = set()
        f = A.p.func(fq)
        for t in func_nodes(f, ast.Try):
            if any(isinstance(c, ast.Call) and norm(c.func).endswith("_find_object") for s in t.body for c in ast.walk(s)):
                for h in t.handlers:
                    if h.type is not None:
                        out |= {norm(e) for e in (h.type.elts if isinstance(h.type, ast.Tuple) else [h.type])}
        for m in ALL_MODES:
            for (fn, h, lab, ctx, o) in A.api(entry, m).handler_runs:
                if fn.qual == fq and lab in A.p.exc_classes:
                    out.add(lab)
        return out

    hd = handled(A.impl_q("delete_object"), "delete_object")
    hu = handled(Q("_untag_object"), "tag_object") if rollback else set()
    for cls in sorted(raised):
        rule.inst(f"_find_object raises {cls}")
        rule.ob(2 if rollback else 1)
        if cls != "PidRefsDoesNotExist" and cls not in hd and "Exception" not in hd:
            rule.fail(Q("delete_object"), f"except {cls}", f"_find_object classifies a partial state as {cls} but delete_object has no "
                      "clean-up branch for it: a pid interrupted in that state can never be deleted and stored again")
        if rollback and cls not in hu and "Exception" not in hu:
            rule.fail(Q("_untag_object"), f"except {cls}", f"_find_object raises {cls} but the tagging roll-back does not handle it")


def check_C10(A: Analysis, tier):
    rules = []
    ra = Rule("C10", "C10.a", "durable steps happen in the order the recovery code is written for: object before "
              "references, pid reference before cid list; on delete pid reference, list update, list, object, metadata", floor=6)

    def need(ev, what, why):
        ra.ob()
        ra.inst(f"{site_func(ev)}: `{site_text(ev)[:50]}` after {what}")
        if what not in ev.done:
            ra.fail(site_func(ev), site_text(ev), why, site_loc(A, ev))

    for m in ALL_MODES:
        it = A.api("store_object", m)
        for ev in it.events:
            if ev.kind in MUT and Q("_store_hashstore_refs_files") in ev.ctx and Q("_untag_object") not in ev.ctx:
                if any(c.cls in ("PIDREFS", "CIDREFS") for cs in ev.classes for c in primary(cs)):
                    need(ev, ("call", Q("_store_and_validate_data")),
                         "a reference is written before the object is stored and validated: a crash leaves a reference to nothing")
        for e in ("tag_object",):
            it = A.api(e, m)
            for ev in it.events:
                if Q("_untag_object") in ev.ctx or ev.kind not in MUT:
                    continue
                hits = [(i, c) for i, c in resource_hits(ev, {"CIDREFS"})]
                if ev.kind == "RENAME" and any(i == 1 for i, c in hits):
                    need(ev, ("prim", "RENAME", 1, "PIDREFS"),
                         "the cid reference list is published before the pid reference: a crash in between leaves a list naming an unbound pid")
                if ev.kind == "WRITE" and ev.prim == "file.write" and hits:
                    need(ev, ("prim", "RENAME", 1, "PIDREFS"),
                         "the pid is added to the cid list before its pid reference exists")
        it = A.api("delete_object", m)
        for ev in it.events:
            if ev.handling or ev.ctx[0] != Q("delete_object"):
                continue
            if ev.kind == "WRITE" and ev.prim == "file.truncate" and resource_hits(ev, {"CIDREFS"}):
                need(ev, ("prim", "RENAME", 0, "PIDREFS"), "the cid list is updated before the pid reference is renamed away")
            if ev.kind == "RENAME" and Q("delete_object") in ev.ctx and Q("delete_metadata") not in ev.ctx:
                for i, c in resource_hits(ev, {"CIDREFS", "OBJ"}):
                    if i == 0 and c.cls == "CIDREFS":
                        need(ev, ("prim", "WRITE", 0, "CIDREFS"), "the cid list is renamed away before this pid was removed from it")
                    if i == 0 and c.cls == "OBJ":
                        need(ev, ("prim", "RENAME", 0, "CIDREFS"), "the object is renamed away before its (empty) cid list")
        for c in it.calls:
            if c["callee"] == Q("delete_metadata") and c["ctx"][-1] == A.impl_q("delete_object") and not c["state"].handling:
                ra.ob()
                ra.inst("delete_object: delete_metadata(pid) after the reference files")
                if ("prim", "RENAME", 0, "PIDREFS") not in c["state"].done:
                    ra.fail(c["func"], c["node"], "metadata is removed before the pid reference is renamed away", A.p.loc(c["func"], c["node"]))
    rules.append(ra)

    rb = Rule("C10", "C10.b", "every inconsistency class _find_object can raise has a clean-up branch in delete_object "
              "and in the roll-back", floor=3)
    cleanup_branch_rule(A, rb, rollback=True)
    rules.append(rb)

    rc = Rule("C10", "C10.c", "every clean-up branch of delete_object unbinds the pid (renames its reference away), "
              "removes its metadata and the markers, and never touches an object", floor=3)
    for m in ALL_MODES:
        it = A.api("delete_object", m)
        for (fn, h, lab, ctx, o) in it.handler_runs:
            if fn.qual != A.impl_q("delete_object") or lab not in A.p.exc_classes:
                continue
            rc.ob()
            rc.inst(f"delete_object [{m}] except {lab}")
            from .state import join as _join
            done_state = _join(o.ret, o.normal)   # `return` or falling off the handler
            if done_state is None:
                rc.fail(fn, f"except {lab}", f"clean-up branch for {lab} never completes normally", A.p.loc(fn, h))
                continue
            in_finally = {norm(c.func).split(".")[-1] for t in func_nodes(fn, ast.Try) if t.finalbody and any(h is x for x in ast.walk(t))
                          for s_ in t.finalbody for c in ast.walk(s_) if isinstance(c, ast.Call)}
            for want, txt in ((("prim", "RENAME", 0, "PIDREFS"), "rename the pid reference away"),
                              (("call", Q("delete_metadata")), "call delete_metadata(pid)"),
                              (("call", Q("_delete_marked_files")), "call _delete_marked_files")):
                if want[0] == "call" and want[1].split(".")[-1] in in_finally:
                    continue
                if want not in done_state.done:
                    rc.fail(fn, f"except {lab}", f"clean-up branch for {lab} can return without having to {txt}: the pid stays wedged",
                            A.p.loc(fn, h))
        for ev in it.events:
            if ev.handling and ev.kind in ("RENAME", "REMOVE") and ev.ctx[0] == Q("delete_object"):
                for i, c in resource_hits(ev, {"OBJ"}):
                    if i == 0:
                        rc.fail(site_func(ev), site_text(ev), "a clean-up branch removes an object", site_loc(A, ev))
    rules.append(rc)

    rd = Rule("C10", "C10.d", "no clean-up branch uses a path after renaming it away (see C05.a)", floor=1)
    c5 = [r for r in rules_of(A, "C05") if r.rid == "C05.a"][0]
    rd.instances = list(c5.instances)
    rd.nontrivial = set(c5.nontrivial)
    rd.obligations = c5.obligations
    for f in c5.findings:
        if f.detail.get("handling") and f.detail.get("entry") == Q("delete_object"):
            rd.fail(f.func, f.construct, f.message, f.loc, f.detail)
    rules.append(rd)

    rf = Rule("C10", "C10.f", "an in-place rewrite of a cid list shrinks the file (truncate) only after the new content "
              "was written: a death in between leaves the other pids listed", floor=1)
    for m in ALL_MODES:
        for e in ("delete_object", "tag_object"):
            it = A.api(e, m)
            for ev in it.events:
                if ev.kind == "WRITE" and ev.prim == "file.truncate" and resource_hits(ev, {"CIDREFS"}):
                    rf.ob()
                    rf.inst(f"{ev.func.qual}:{ev.line} truncate of the cid list")
                    if not any(d[0] == "op" and d[1] in ("file.writelines", "file.write") and d[2] == ev.extra.get("handle") for d in ev.done if len(d) == 3):
                        rf.fail(ev.func, ev.node, "the cid list is truncated before its new content is written: a process death between the two "
                                "leaves the list empty and every other pid sharing the object loses its reference", A.p.loc(ev.func, ev.node))
                # write-then-truncate is crash-safe only because the new content is the old one minus some lines, IN THE OLD ORDER: whatever
                # prefix of it reached the file, followed by the old tail, still names every pid that stays
                if ev.kind == "WRITE" and ev.prim in ("file.writelines", "file.write") and ev.extra.get("mode", "").startswith("r+") \
                        and resource_hits(ev, {"CIDREFS"}) and ev.node.args:
                    rf.ob()
                    rf.inst(f"{ev.func.qual}:{ev.line} in-place rewrite keeps the order of the lines read")
                    from .rules_common import expand_locals
                    wx = expand_locals(ev.func.node, ev.node.args[0])
                    bad = [c for c in ast.walk(wx) if (isinstance(c, ast.Call) and norm(c.func) in ("sorted", "set", "frozenset", "reversed", "random.sample"))
                           or isinstance(c, (ast.SetComp, ast.Set))]
                    wn = ev.node.args[0].id if isinstance(ev.node.args[0], ast.Name) else None
                    bad += [c for c in ast.walk(ev.func.node) if wn and isinstance(c, ast.Call) and isinstance(c.func, ast.Attribute)
                            and isinstance(c.func.value, ast.Name) and c.func.value.id == wn and c.func.attr in ("sort", "reverse")]
                    bad += [c for c in ast.walk(ev.func.node) if wn and isinstance(c, ast.Call) and norm(c.func) == "random.shuffle" and c.args
                            and isinstance(c.args[0], ast.Name) and c.args[0].id == wn]
                    if bad:
                        rf.fail(ev.func, ev.node, f"the lines written back over the cid list are re-ordered / de-duplicated (`{norm(bad[0])[:50]}`): a death after part of the "
                                "new content reached the file leaves 'prefix of the new order + old tail', in which a pid that stays can be in neither part - "
                                "it drops out of the list although it was never touched", A.p.loc(ev.func, ev.node))
    if not rf.instances:
        # no truncate and no in-place write-back at all: the list is replaced some other way (a rename of a finished file is judged by C09.a / C05.g)
        inplace = [ev for m in ALL_MODES for e in ("delete_object", "tag_object") for ev in A.api(e, m).events
                   if ev.kind == "WRITE" and ev.prim.startswith("file.") and ev.extra.get("mode", "").startswith(("r+", "w")) and resource_hits(ev, {"CIDREFS"})]
        if not inplace:
            rf.ob()
            rf.inst("no cid list is rewritten in place by delete_object / tag_object (nothing to order)")
    rules.append(rf)

    c9 = [r for r in rules_of(A, "C09") if r.rid == "C09.a"][0]
    rg = Rule("C10", "C10.g", "no permanent object / metadata / pid-reference file is created or written in place (shared with "
              "C09.a): a death can then never leave a partial or empty file at an address the recovery code trusts", floor=c9.floor)
    rg.instances, rg.nontrivial, rg.obligations = list(c9.instances), set(c9.nontrivial), c9.obligations
    for f in c9.findings:
        rg.fail(f.func, f.construct, f.message + " (after a crash the duplicate-content branch / look-up would trust this file)", f.loc, f.detail)
    rules.append(rg)

    rh10 = Rule("C10", "C10.h", "no call opens, reads, sizes or renames a file on a path on which it has itself found that file absent (and has "
                "not created it since): the clean-up of a partial state must not depend on the very file whose absence defines that state", floor=20)
    seen10 = set()
    for e in PUBLIC_API:
        for m in ("th",):
            it = A.api(e, m)
            for ev in it.events:
                if ev.kind not in ("READ", "WRITE", "RENAME", "REMOVE") or ev.prim.startswith("file.") or not ev.paths:
                    continue
                if ev.kind == "WRITE" and not ev.extra.get("mode", "").startswith(("r", "a")):
                    continue
                k10 = (e, ev.func.qual, ev.line, ev.handling)
                if k10 in seen10:
                    continue
                seen10.add(k10)
                rh10.ob()
                rh10.inst(f"{e}: {ev.func.qual}:{ev.line} {ev.kind} {ev.prim}" + (f" while handling {ev.handling[-1]}" if ev.handling else ""))
                created = {d[3] for d in ev.done if len(d) == 4 and d[0] == "prim" and ((d[1] == "RENAME" and d[2] == 1) or (d[1] in ("CREATE", "WRITE") and d[2] == 0))}
                for fct, pol in ev.facts:
                    for a in F.atoms_of(fct):
                        if a[0] == "probe" and a[1] in ("isfile", "exists") and (a[2] & ev.paths[0]) and F.implied(ev.facts, a) is False:
                            cl = {c.cls for t in (a[2] & ev.paths[0]) for c in [classify(t)]}
                            if cl & created or ev.kind == "REMOVE" and "TMP" in cl:
                                continue
                            # the call has also seen the file present (a later re-test, e.g. the guard of the helper that opens it)
                            if any(b[0] == "probe" and b[1] in ("isfile", "exists") and (b[2] & a[2] & ev.paths[0]) and F.implied(ev.facts, b) is True
                                   for f2, p2 in ev.facts for b in F.atoms_of(f2)):
                                continue
                            rh10.fail(site_func(ev), site_text(ev), f"{e} {ev.kind.lower()}s {sorted(cl)} `{showv(a[2] & ev.paths[0])[:70]}` on a path on which it has found that file "
                                      "absent" + (f" (clean-up branch for {ev.handling[-1]})" if ev.handling else "") + ": the step fails deterministically, so the "
                                      "state it was meant to repair can never be repaired", site_loc(A, ev), {"entry": e, "handling": list(ev.handling)})
    rules.append(rh10)

    re_ = Rule("C10", "C10.e", "adding a pid to an existing cid list is guarded by a negative membership test "
               "(re-tagging after a crash tolerates a pid already listed)", floor=1)
    for m in ALL_MODES:
        it = A.api("tag_object", m)
        for ev in it.events:
            if ev.kind == "WRITE" and ev.prim == "open" and ev.extra.get("mode", "").startswith("a") and resource_hits(ev, {"CIDREFS"}):
                re_.ob()
                re_.inst(f"{ev.func.qual}:{ev.line} append-open of the cid list")
                # some result of the membership helper is known to be false on every path to the append
                ok = False
                for c in it.calls:
                    if c["callee"] == Q("_is_string_in_refs_file") and c.get("ret"):
                        if F.implied(ev.facts, it.truthy(c["ret"], c["state"])) is False:
                            ok = True
                            break
                if not ok or ("call", Q("_is_string_in_refs_file")) not in ev.done:
                    re_.fail(site_func(ev), site_text(ev), "the pid is appended to the cid list without a preceding negative membership "
                             "test: re-tagging a half-tagged pid lists it twice", site_loc(A, ev))
    rules.append(re_)
    return rules


def c03_cached(A):
    return rules_of(A, "C03")


def c05_cached(A):
    return rules_of(A, "C05")


# =======================================================================================
def _meta_name_ok(name, pid_terms, fmt_terms):
    """name == H(cat(pid, F))"""
    if tag(name) != "H" or name[2] is not None:
        return False
    x = name[1]
    if tag(x) != "cat" or len(x[1]) != 2:
        return False
    return x[1][0] in pid_terms and x[1][1] in fmt_terms


def check_C11(A: Analysis, tier):
    rules = []
    ra = Rule("C11", "C11.a", "every metadata-document site uses the address metadata/shard(H(pid))/H(pid+F) with "
              "F = format_id or the default namespace; delete-all lists exactly metadata/shard(H(pid))", floor=4)
    pidt = {P("pid")}
    fmts = {P("format_id"), ("selfattr", "sysmeta_ns")}
    for m in ALL_MODES:
        for e in ("store_metadata", "retrieve_metadata", "delete_metadata"):
            it = A.api(e, m)
            for ev in it.events:
                for i, cs in enumerate(ev.classes):
                    if ev.prim.startswith("file.") and i > 0:
                        continue
                    for c in cs:
                        b = base_class(c)
                        if b.cls in ("META_UNHASHED", "PIDREFS_UNHASHED") or (b.cls == "UNKNOWN" and ev.kind in MUT and i == (1 if ev.kind == "RENAME" else 0) and c.cls != "MARKER"):
                            ra.ob()
                            ra.fail(site_func(ev), site_text(ev), f"metadata path is not derived as metadata/shard(H(pid))/...: {c!r}", site_loc(A, ev))
                        is_dest = ev.kind in ("CREATE", "MKDIR") and i == 0 or ev.kind == "RENAME" and i == 1
                        if is_dest and c in primary(cs) and b.cls in ("FALLBACK", "RAWID", "RELATIVE", "BOGUS"):
                            ra.ob()
                            ra.fail(site_func(ev), site_text(ev), f"metadata is written to {c!r}, which is not metadata/shard(H(pid))/H(pid+format)", site_loc(A, ev))
                        if b.cls in ("META", "METADIR"):
                            ra.ob()
                            ra.inst(f"{site_func(ev)}: `{site_text(ev)[:50]}` {b.cls}")
                            ok = b.key in pidt and (b.cls == "METADIR" and b.extra is None or b.cls == "META" and (
                                _meta_name_ok(b.extra, pidt, fmts) or (tag(b.extra) == "listed" and classify(b.extra[1]).cls == "METADIR"
                                                                       and classify(b.extra[1]).key in pidt)))
                            if not ok:
                                ra.fail(site_func(ev), site_text(ev), f"metadata address {b!r} is not metadata/shard(H(pid))/H(pid+format): "
                                        "documents of different (pid, format) pairs can collide or be missed", site_loc(A, ev))
    # the sysmeta path reported by _find_object
    fo = A.run(Q("_find_object"), "th")
    for k, l, st, rv in fo.exits:
        if k == "return":
            for t in rv:
                if tag(t) == "dictlit":
                    for kk, vv in t[1]:
                        if kk == C("sysmeta_path"):
                            ra.ob()
                            ra.inst("_find_object: sysmeta_path entry")
                            for x in vv:
                                c = classify(x)
                                if tag(x) == "const":
                                    continue
                                if c.cls != "META" or c.key not in pidt or not _meta_name_ok(c.extra, pidt, {("selfattr", "sysmeta_ns")}):
                                    ra.fail(Q("_find_object"), "sysmeta_path", f"sysmeta path {c!r} is not the default-namespace document address")
    rules.append(ra)

    rg = Rule("C11", "C11.g", "with a relative store path (an accepted configuration) every metadata primitive still has a candidate "
              "at metadata/shard(H(pid))/... (shared with C15.a)", floor=3)
    for e in ("store_metadata", "retrieve_metadata", "delete_metadata"):
        it = A.run(Q(e), "th", tagk="relative-root", relative_root=True)
        rg.inst(f"{e} (relative store path): {len(it.events)} primitive events")
        for ev in it.events:
            if ev.kind not in MUT + ("READ",):
                continue
            for i, cs in enumerate(ev.classes):
                if ev.prim.startswith("file.") and i > 0 or not cs:
                    continue
                rg.ob()
                if all(base_class(c).cls in ("UNKNOWN", "RELATIVE", "BOGUS", "FALLBACK", "RAWID") for c in cs):
                    rg.fail(site_func(ev), site_text(ev), f"with a relative store path this {ev.kind} addresses no metadata document "
                            f"({sorted(repr(c) for c in cs)[:2]}): the full path is joined onto the metadata directory again and the document is "
                            "not found (a delete then silently does nothing)", site_loc(A, ev))
    rules.append(rg)

    rb = Rule("C11", "C11.b", "an omitted format means exactly the configured default namespace and a given format "
              "means exactly that format, at every site", floor=5)
    for e in ("store_metadata", "retrieve_metadata", "delete_metadata"):
        for label, ov, want in (("format omitted", V(NONE), {("selfattr", "sysmeta_ns")}), ("format given", V(C("FMT")), {C("FMT")})):
            it = A.run(Q(e), "th", overrides={"format_id": ov}, tagk=label)
            names = set()
            for ev in it.events:
                for cs in ev.classes[:1] if ev.kind != "RENAME" else ev.classes[:2]:
                    for c in cs:
                        b = base_class(c)
                        if b.cls == "META" and tag(b.extra) != "listed":
                            names.add(b.extra)
            if e == "delete_metadata" and label == "format omitted":
                rb.ob()
                rb.inst(f"{e} ({label}): delete-all form")
                if names:
                    rb.fail(Q(e), "format_id is None", f"delete_metadata(pid) addresses single documents {sorted(show(n) for n in names)} "
                            "instead of listing the pid's directory")
                continue
            rb.ob()
            rb.inst(f"{e} ({label}): {sorted(show(n) for n in names)}")
            bad = [n for n in names if not _meta_name_ok(n, pidt, want)]
            if bad or not names:
                rb.fail(Q(e), f"{label}", f"{e} with {label} addresses {sorted(show(n) for n in names) or 'no document'}; expected "
                        f"H(pid+{show(next(iter(want)))}) only")
    rules.append(rb)

    rc = Rule("C11", "C11.c", "every successful store_metadata has renamed the temp file holding the supplied bytes onto "
              "the document's address (no path returns without publishing)", floor=2)
    for m in ALL_MODES:
        it = A.api("store_metadata", m)
        for kind, label, st, _ in it.exits:
            if kind == "return":
                rc.ob()
                rc.inst(f"store_metadata [{m}] normal exit")
                if ("prim", "RENAME", 1, "META") not in st.done:
                    rc.fail(Q("store_metadata"), "return without publishing", "store_metadata can return successfully on a path that never moved the "
                            "new document into place: the previous version (or nothing) is what retrieve_metadata then returns")
    rules.append(rc)

    rd = Rule("C11", "C11.d", "every normal path through delete_object calls delete_metadata(pid) with the format "
              "omitted (all documents)", floor=2)
    for m in ALL_MODES:
        it = A.api("delete_object", m)
        for c in it.calls:
            if c["callee"] == Q("delete_metadata"):
                rd.ob()
                rd.inst(f"delete_object:{c['node'].lineno} {norm(c['node'])}")
                am = c.get("argmap", {})
                if am.get("format_id") != V(NONE) or am.get("pid") != V(P("pid")):
                    rd.fail(c["func"], c["node"], "delete_object removes only one metadata document (or another pid's) instead of all "
                            "documents of the deleted pid", A.p.loc(c["func"], c["node"]))
        for kind, label, st, _ in it.exits:
            if kind == "return":
                rd.ob()
                if ("call", Q("delete_metadata")) not in st.done:
                    rd.fail(Q("delete_object"), "return", "delete_object can return normally without having removed the pid's metadata")
    rules.append(rd)

    re_ = Rule("C11", "C11.e", "deleting an absent document is a silent no-op and retrieving it raises ValueError: the "
               "look-up's FileNotFoundError never escapes either call", floor=2)
    for e in ("delete_metadata", "retrieve_metadata"):
        it = A.api(e, "th")
        labs = {l for k, l, s, _ in it.exits if k == "raise"}
        re_.ob()
        re_.inst(f"{e}: exits {sorted(str(l) for l in labs)}")
        if "FileNotFoundError" in labs and e == "delete_metadata":
            re_.fail(Q(e), "FileNotFoundError", f"the look-up helper's FileNotFoundError can escape {e}: an absent document is "
                     "no longer a silent no-op / a ValueError")
        if e == "retrieve_metadata" and "ValueError" not in labs:
            re_.fail(Q(e), "ValueError", "retrieve_metadata no longer raises ValueError for an absent document")
        if e == "retrieve_metadata":
            for k, l, s, rv in it.exits:
                if k == "return" and not any(tag(t) == "handle" for t in rv):
                    re_.fail(Q(e), "return", "retrieve_metadata can return something that is not an open stream")
    rules.append(re_)
    rh11 = Rule("C11", "C11.h", "delete_metadata(pid) / delete_object(pid) remove ALL of the pid's documents: the loop over the listed documents has no "
                "early normal exit (shared with C12.i)", floor=1)
    from .rules_locks import listing_loop_rule
    listing_loop_rule(A, rh11)
    rules.append(rh11)
    ri11 = Rule("C11", "C11.i", "the listing of a pid's metadata directory is literal (shared with C18.g): a glob over an unescaped store path lists nothing "
                "or something else, and the delete-all forms then leave the pid's documents in place", floor=0)
    glob_rule(A, ri11)
    rules.append(ri11)
    return rules


# =======================================================================================
def _poly(node, syms):
    """A7: integer expression -> canonical polynomial {monomial(tuple of sorted symbols): coeff}"""
    if isinstance(node, ast.Constant) and isinstance(node.value, int):
        return {(): node.value} if node.value else {}
    if isinstance(node, ast.Name):
        return {(node.id,): 1}
    if isinstance(node, ast.Attribute) and isinstance(node.value, ast.Name) and node.value.id == "self":
        return {(f"self.{node.attr}",): 1}
    if isinstance(node, ast.BinOp):
        a, b = _poly(node.left, syms), _poly(node.right, syms)
        if a is None or b is None:
            return None
        if isinstance(node.op, (ast.Add, ast.Sub)):
            out = dict(a)
            sg = 1 if isinstance(node.op, ast.Add) else -1
            for k, v in b.items():
                out[k] = out.get(k, 0) + sg * v
            return {k: v for k, v in out.items() if v}
        if isinstance(node.op, ast.Mult):
            out = {}
            for k1, v1 in a.items():
                for k2, v2 in b.items():
                    k = tuple(sorted(k1 + k2))
                    out[k] = out.get(k, 0) + v1 * v2
            return {k: v for k, v in out.items() if v}
    if isinstance(node, ast.UnaryOp) and isinstance(node.op, ast.USub):
        a = _poly(node.operand, syms)
        return None if a is None else {k: -v for k, v in a.items()}
    return None


def computehash_rule(A, rule):
    """H(x) must be the digest of exactly the elements of x: _computehash is a pure function of
    what iterating its argument yields (no file-system access, no length/slice arithmetic)."""
    ch = A.p.func(Q("_computehash"))
    sp = ch.node.args.args[1].arg
    rule.ob()
    fs_calls = [c for c in ast.walk(ch.node) if isinstance(c, ast.Call) and (norm(c.func).startswith(("os.", "io.", "shutil.", "Path", "open", "Stream", "closing")))]
    for c in fs_calls:
        rule.inst(f"_computehash: {norm(c)[:60]}")
        rule.fail(ch, c, f"_computehash touches the file system / opens something (`{norm(c.func)}`): the hash of an identifier string then depends on "
                  "what files exist, so pid/format addresses no longer follow H(pid) of the published layout", A.p.loc(ch, c))
    rebinds = [a for a in ast.walk(ch.node) if isinstance(a, (ast.Assign, ast.AugAssign, ast.AnnAssign, ast.NamedExpr))
               and any(isinstance(t, ast.Name) and t.id == sp for t in ([a.target] if not isinstance(a, ast.Assign) else a.targets))]
    for a in rebinds:
        rule.inst(f"_computehash: {norm(a)[:60]}")
        rule.fail(ch, a, f"_computehash replaces its argument before hashing it (`{norm(a)[:70]}`): what is hashed is a transformed value, so two "
                  "different identifiers can get the same address (or one identifier a non-standard one)", A.p.loc(ch, a))
    updates = [c for c in ast.walk(ch.node) if isinstance(c, ast.Call) and isinstance(c.func, ast.Attribute) and c.func.attr == "update"]
    if not updates:
        rule.fail(ch, "hash_obj.update(...)", "_computehash no longer feeds its argument to the hash object", A.p.loc(ch, ch.node))
    for u in updates:
        rule.ob()
        rule.inst(f"_computehash: {norm(u)[:70]}")
        arg = u.args[0] if u.args else None
        if arg is not None:
            from .rules_common import expand_locals
            arg = expand_locals(ch.node, arg)     # a temp that only names the converted element reads as the conversion itself
        inner = arg
        if isinstance(inner, ast.Call) and norm(inner.func).endswith("_cast_to_bytes") and (inner.args or len(inner.keywords) == 1):
            inner = inner.args[0] if inner.args else inner.keywords[0].value
        if isinstance(inner, ast.Call) and isinstance(inner.func, ast.Attribute) and inner.func.attr == "encode":
            inner = inner.func.value
        loops = [l for l in ast.walk(ch.node) if isinstance(l, ast.For) and any(u is x for x in ast.walk(l))]
        ok = False
        if isinstance(inner, ast.Name) and inner.id == sp and not loops:
            ok = True      # the whole argument, encoded once
        for l in loops:
            if isinstance(l.target, ast.Name) and isinstance(inner, ast.Name) and inner.id == l.target.id \
                    and isinstance(l.iter, ast.Name) and l.iter.id == sp:
                ok = True  # every element yielded by iterating the argument
        # block-wise reading of a handle until the empty read: `while data := x.read(n): update(data)` and
        # `while True: data = x.read(n); if not data: break; update(data)` feed the whole content too
        for w in [w for w in ast.walk(ch.node) if isinstance(w, ast.While) and any(u is x for x in ast.walk(w))]:
            def is_read(e):
                return isinstance(e, ast.Call) and isinstance(e.func, ast.Attribute) and e.func.attr == "read" and isinstance(e.func.value, ast.Name) \
                    and e.func.value.id == sp
            if isinstance(inner, ast.Name) and isinstance(w.test, ast.NamedExpr) and w.test.target.id == inner.id and is_read(w.test.value):
                ok = True
            if isinstance(inner, ast.Name) and isinstance(w.test, ast.Constant) and w.test.value is True:
                reads = [i for i, b_ in enumerate(w.body) if isinstance(b_, ast.Assign) and len(b_.targets) == 1 and isinstance(b_.targets[0], ast.Name)
                         and b_.targets[0].id == inner.id and is_read(b_.value)]
                stops = [i for i, b_ in enumerate(w.body) if isinstance(b_, ast.If) and isinstance(b_.test, ast.UnaryOp) and isinstance(b_.test.op, ast.Not)
                         and isinstance(b_.test.operand, ast.Name) and b_.test.operand.id == inner.id and b_.body and isinstance(b_.body[-1], ast.Break)]
                upd = [i for i, b_ in enumerate(w.body) if any(u is x for x in ast.walk(b_))]
                if reads and stops and upd and reads[0] < stops[0] < upd[0]:
                    ok = True
        if not ok:
            rule.fail(ch, u, f"`{norm(u)[:80]}` does not hash exactly the elements of `{sp}` (it is fed a slice, a length-bounded block or something "
                      "else): two different identifiers can get the same hash, or the same identifier a non-standard one", A.p.loc(ch, u))
    hexd = [c for c in ast.walk(ch.node) if isinstance(c, ast.Call) and isinstance(c.func, ast.Attribute) and c.func.attr == "hexdigest"]
    rule.ob()
    if not hexd:
        rule.fail(ch, "hexdigest()", "_computehash no longer returns the hex digest", A.p.loc(ch, ch.node))


def int_config_rule(A, rh15):
    """C15.h / C14.i: depth and width are integers where they are recorded and where they are used"""
    b = A.p.func(Q("_build_hashstore_yaml_string"))
    dicts = [n for n in ast.walk(b.node) if isinstance(n, ast.Dict) and n.keys]
    if not dicts:
        raise AnalysisError("_build_hashstore_yaml_string: configuration dict literal not found")
    it_i = A.run(Q("__init__"), "th")
    bq = A.impl_q("_build_hashstore_yaml_string")
    for c in it_i.calls:
        if c["callee"] != bq:
            continue
        for k, v in zip(dicts[0].keys, dicts[0].values):
            if not (isinstance(k, ast.Constant) and k.value in ("store_depth", "store_width") and isinstance(v, ast.Name)):
                continue
            vals = (c.get("argmap") or {}).get(v.id)
            if vals is None:
                continue
            rh15.ob()
            rh15.inst(f"{c['func'].qual}:{c['node'].lineno} {k.value} <- {sorted(tag(t) for t in vals)}")
            bad = [t for t in vals if not (tag(t) == "int" or (is_const(t) and isinstance(t[1], int) and not isinstance(t[1], bool)))]
            if bad:
                rh15.fail(c["func"], c["node"], f"`{k.value}` reaches the hashstore.yaml writer without integer coercion: the constructor accepts integer-like "
                          "strings, which would be recorded as YAML strings that other HashStore implementations / versions refuse",
                          A.p.loc(c["func"], c["node"]), {"value": [showv(frozenset([t]))[:80] for t in bad]})
    # the same for the values the instance itself works with: _shard multiplies and slices with them
    for attr_, key_ in (("depth", "store_depth"), ("width", "store_width")):
        vals = it_i.attr_assigns.get(attr_)
        if vals is None:
            continue
        rh15.ob()
        rh15.inst(f"self.{attr_} <- {sorted(tag(t) for t in vals)}")
        bad = [t for t in vals if not (tag(t) == "int" or (is_const(t) and isinstance(t[1], int) and not isinstance(t[1], bool)))]
        if bad:
            init_f = A.p.func(Q("__init__"))
            rh15.fail(init_f, f"self.{attr_}", f"the constructor keeps `{key_}` as the caller spelled it ({showv(frozenset(bad))[:60]}), not the integer the validator "
                      "made of it: a store opened with the (accepted) spelling \"3\" cannot compute a single address - _shard's range() and slices need integers",
                      A.p.loc(init_f, init_f.node))


def check_C15(A: Analysis, tier):
    rules = []
    ra = Rule("C15", "C15.a", "every primitive on a permanent file uses the README address of its class: objects/"
              "shard(cid), refs/pids/shard(H(pid)), refs/cids/shard(cid), metadata/shard(H(pid))/H(pid+format), "
              "hashstore.yaml; H is the store algorithm; fall-back candidates only in the two look-up helpers", floor=30)
    lookups = (Q("_get_hashstore_data_object_path"), Q("_get_hashstore_metadata_path"), Q("_delete"), Q("_open"), Q("_exists"))
    for it, ev in all_events(A, PUBLIC_API, ALL_MODES):
        if ev.kind not in MUT + ("READ", "PROBE", "MKDIR"):
            continue
        for i, cs in enumerate(ev.classes):
            if ev.prim.startswith("file.") and i > 0:
                continue
            for c in primary(cs):
                b = base_class(c)
                while b.cls == "PARENTDIR" and isinstance(b.key, PathClass):
                    b = b.key
                if b.cls in ("OBJ", "CIDREFS", "PIDREFS", "META", "METADIR", "CONFIG"):
                    ra.ob()
                    ra.inst(f"{b.cls} at {ev.func.qual}:{ev.line}")
                    if b.cls in ("PIDREFS", "METADIR") and b.extra is not None:
                        ra.fail(site_func(ev), site_text(ev), f"{b.cls} address hashes the pid with {show(b.extra)}, not the store algorithm", site_loc(A, ev))
                elif b.cls in ("PIDREFS_UNHASHED", "META_UNHASHED"):
                    ra.ob()
                    ra.fail(site_func(ev), site_text(ev), f"{b.cls[:-9]} address is sharded from {show(b.key)} instead of H(pid)", site_loc(A, ev))
                elif b.cls in ("FALLBACK", "RAWID", "RELATIVE", "BOGUS"):
                    # only secondary candidates are left: nothing of the README layout
                    ra.ob()
                    if not any(q in ev.ctx for q in lookups):
                        ra.fail(site_func(ev), site_text(ev), f"path {c!r} is not a README address (an identifier or relative name used as a path outside the look-up helpers)",
                                site_loc(A, ev))
                    elif ev.kind in ("CREATE", "WRITE") or (ev.kind == "RENAME" and i == 1):
                        ra.fail(site_func(ev), site_text(ev), f"fall-back candidate {c!r} used as a destination", site_loc(A, ev))
                elif b.cls == "UNKNOWN" and (ev.kind in MUT):
                    ra.ob()
                    ra.fail(site_func(ev), site_text(ev), f"{ev.kind} on a path the analysis cannot relate to the README layout: {showv(ev.paths[i])[:120]}",
                            site_loc(A, ev))
    # the same with a *relative* store path (a configuration the API accepts): every primitive must
    # still have a candidate at a README address (the look-up helpers' "as given" fall-back is what
    # keeps callers that hand them a full path working)
    for e in PUBLIC_API:
        it = A.run(Q(e), "th", tagk="relative-root", relative_root=True)
        for ev in it.events:
            if ev.kind not in MUT + ("READ",):
                continue
            for i, cs in enumerate(ev.classes):
                if ev.prim.startswith("file.") and i > 0 or not cs:
                    continue
                ra.ob()
                if all(base_class(c).cls in ("UNKNOWN", "RELATIVE", "BOGUS", "FALLBACK", "RAWID") for c in cs):
                    ra.fail(site_func(ev), site_text(ev), f"with a relative store path this {ev.kind} has no candidate at a README address "
                            f"({sorted(repr(c) for c in cs)[:2]}): a full path handed to a look-up helper is joined onto the entity directory again "
                            "(prefix doubled) and the file is not found", site_loc(A, ev), {"entry": e, "configuration": "relative store_path"})
    ch = A.p.func(Q("_computehash"))

    def no_algorithm(atom):
        return True if atom[0] == "isnone" and atom[1] == V(P("algorithm")) else None

    it_h = A.run(Q("_computehash"), "th", tagk="algorithm-omitted", assume=no_algorithm)
    news = [ev for ev in it_h.events if ev.kind == "HASHNEW"]
    ra.ob()
    if not news or any(ev.paths[0] != V(("selfattr", "algorithm")) for ev in news):
        got = sorted({show(t) for ev in news for t in ev.paths[0]})
        ra.fail(ch, "hashlib.new", f"_computehash without an algorithm does not hash with the store algorithm (self.algorithm) but with {got or 'nothing'}",
                A.p.loc(ch, ch.node))
    rules.append(ra)

    rg15 = Rule("C15", "C15.g", "the overloaded look-up helpers return a fall-back candidate (the argument as given, or un-sharded below the entity "
                "directory) only on a path on which the README address was tested absent: the published layout has precedence", floor=2)
    for helper, cls_name in (("_get_hashstore_data_object_path", "OBJ"), ("_get_hashstore_metadata_path", "META")):
        it_l = A.run(Q(helper), "th")
        hf = A.p.func(Q(helper))
        for (rf_, rn_, s_, val_, rctx) in it_l.return_sites:
            if rf_ is not hf:
                continue
            rg15.ob()
            kinds = {base_class(classify(t)).cls for t in val_}
            rg15.inst(f"{helper}:{rn_.lineno} returns {sorted(kinds)}")
            # what must have been found absent before this candidate may be returned
            need = None
            if all(not is_rooted(t) for t in val_):
                need = lambda t: is_rooted(t)                                   # the argument as given: after every store-rooted candidate
            elif cls_name == "OBJ" and kinds <= {"FALLBACK"}:
                need = lambda t: base_class(classify(t)).cls == "OBJ"           # objects/<arg>: after objects/<shard(arg)>
            if need is None:
                continue
            absent = [a for f_, pol in s_.facts for a in F.atoms_of(f_) if a[0] == "probe" and a[1] in ("isfile", "exists")
                      and any(need(t) for t in a[2]) and F.implied(s_.facts, a) is False]
            if not absent:
                rg15.fail(hf, rn_, f"{helper} returns a lower-priority candidate ({sorted(kinds)}) on a path on which the store's own address was not tested "
                          "absent: a file of the same name elsewhere (the working directory, the entity directory) shadows the stored one", A.p.loc(hf, rn_))
    rules.append(rg15)

    rb = Rule("C15", "C15.b", "_shard cuts token i as [i*width, (i+1)*width) for i in range(depth) and the remainder "
              "from depth*width to the end; empty strings dropped", floor=2)
    sh = A.p.func(Q("_shard"))
    rets = [st_ for st_ in sh.node.body if isinstance(st_, ast.Return) and st_.value is not None]
    if len(rets) != 1:
        raise AnalysisError(f"_shard has {len(rets)} top-level return statements; the tiling rule reads one returned expression")
    from .rules_common import expand_locals
    shx = expand_locals(sh.node, rets[0].value)    # intermediate locals inlined: what is returned, as one expression
    slices = [n for n in ast.walk(shx) if isinstance(n, ast.Subscript) and isinstance(n.slice, ast.Slice)]
    comps = [n for n in ast.walk(shx) if isinstance(n, ast.ListComp) and any(isinstance(x, ast.Subscript) and isinstance(x.slice, ast.Slice) for x in ast.walk(n.elt))]
    # a form known to lose characters, whatever else the function does: zip() over one repeated iterator yields complete groups only
    for z in ast.walk(sh.node):
        if isinstance(z, ast.Call) and isinstance(z.func, ast.Name) and z.func.id == "zip" and len(z.args) == 1 and isinstance(z.args[0], ast.Starred) \
                and isinstance(z.args[0].value, ast.BinOp) and isinstance(z.args[0].value.op, ast.Mult):
            rep = z.args[0].value
            seq = rep.left if isinstance(rep.left, (ast.List, ast.Tuple)) else rep.right if isinstance(rep.right, (ast.List, ast.Tuple)) else None
            if seq is not None and len(seq.elts) == 1 and isinstance(seq.elts[0], ast.Call) and norm(seq.elts[0].func) == "iter":
                rb.ob()
                rb.inst(f"_shard:{z.lineno} zip over a repeated iterator")
                rb.fail(sh, z, f"`{norm(z)[:70]}` groups the digest into complete tokens only: zip() stops at the first exhausted argument, so the last "
                        "len(digest) % width characters never reach the remainder - for widths that do not divide the digest length the file name is cut short",
                        A.p.loc(sh, z))
    lossy = bool(rb.findings)
    if not lossy and (len(slices) != 2 or len(comps) != 1):
        raise AnalysisError("_shard is not in the slice/comprehension form the tiling rule reads "
                            f"({len(slices)} slices, {len(comps)} comprehensions)")
    if not lossy:
        comp = comps[0]
        tok = [s for s in slices if any(s is x for x in ast.walk(comp))][0]
        rem = [s for s in slices if s is not tok][0]
        gen = comp.generators[0]
        ivar = gen.target.id if isinstance(gen.target, ast.Name) else None
        W, D = {("self.width",): 1}, {("self.depth",): 1}
        rb.inst(f"token slice `{norm(tok)}` over `{norm(gen.iter)}`")
        rb.inst(f"remainder slice `{norm(rem)}`")
        rb.ob(5)
        lo = _poly(tok.slice.lower, None) if tok.slice.lower is not None else {}
        hi = _poly(tok.slice.upper, None) if tok.slice.upper is not None else None
        want_lo = {tuple(sorted((ivar, "self.width"))): 1}
        want_hi = {tuple(sorted((ivar, "self.width"))): 1, ("self.width",): 1}
        if lo != want_lo or hi != want_hi or tok.slice.step is not None:
            rb.fail(sh, tok, f"token {ivar} is cut as `{norm(tok)}`; the layout needs [{ivar}*width : ({ivar}+1)*width]", A.p.loc(sh, tok))
        if not (isinstance(gen.iter, ast.Call) and norm(gen.iter.func) == "range" and len(gen.iter.args) == 1
                and _poly(gen.iter.args[0], None) == D) or gen.ifs:
            rb.fail(sh, gen.iter, f"tokens range over `{norm(gen.iter)}`; the layout needs range(depth)", A.p.loc(sh, gen.iter))
        rlo = _poly(rem.slice.lower, None) if rem.slice.lower is not None else {}
        if rlo != {("self.depth", "self.width"): 1} or rem.slice.upper is not None or rem.slice.step is not None:
            rb.fail(sh, rem, f"remainder is cut as `{norm(rem)}`; the layout needs [depth*width:]", A.p.loc(sh, rem))
        if norm(tok.value) != norm(rem.value) or norm(tok.value) != sh.node.args.args[1].arg:
            rb.fail(sh, tok.value, "tokens and remainder are not cut from the digest argument", A.p.loc(sh, tok))
        # tokens followed by remainder, compacted
        add = [n for n in ast.walk(shx) if isinstance(n, ast.BinOp) and isinstance(n.op, ast.Add) and any(comp is x for x in ast.walk(n.left))]
        if not add or not any(rem is x for x in ast.walk(add[0].right)):
            rb.fail(sh, comp, "sharded path is not `tokens + [remainder]` in that order", A.p.loc(sh, comp))
    rules.append(rb)

    re5 = Rule("C15", "C15.e", "H is the store algorithm over exactly the UTF-8 elements of the string: _computehash feeds every "
               "element its argument yields (or the whole encoded argument) to the hash object and nothing else", floor=1)
    computehash_rule(A, re5)
    rules.append(re5)

    rc = Rule("C15", "C15.c", "cid lists are written one `id + newline` per line by both writers and pid references "
              "hold the bare cid; readers compare stripped lines / the whole content for equality", floor=3)
    for m in ("th",):
        it = A.api("tag_object", m)
        for ev in it.events:
            if ev.kind == "WRITE" and ev.prim == "file.write" and Q("_untag_object") not in ev.ctx and len(ev.paths) > 1:
                data = ev.paths[1]
                tcls = {c.cls for c in primary(ev.classes[0])}
                fn = ev.func.qual
                if fn == Q("_write_refs_file"):
                    # which kind? decided by the constant ref_type of the call
                    kinds = set()
                    for c in it.calls:
                        if c["callee"] == fn and c["ctx"] + (fn,) == ev.ctx:
                            kinds |= {t[1] for t in c.get("argmap", {}).get("ref_type", EMPTY) if tag(t) == "const"}
                    is_line = all(tag(t) == "cat" and t[1][-1] == C("\n") and len(t[1]) == 2 for t in data)
                    is_bare = all(tag(t) != "cat" for t in data)
                    rc.ob()
                    rc.inst(f"{fn}:{ev.line} writes {showv(data)[:60]}")
                    if ev.node.args and "\\n" in norm(ev.node.args[0]):
                        if not is_line:
                            rc.fail(fn, ev.node, "cid-list temp file line is not `id + '\\n'`", A.p.loc(ev.func, ev.node))
                    elif not is_bare:
                        rc.fail(fn, ev.node, "pid reference content is not the bare cid", A.p.loc(ev.func, ev.node))
                elif fn == Q("_update_refs_file") and "CIDREFS" in tcls:
                    rc.ob()
                    rc.inst(f"{fn}:{ev.line} appends {showv(data)[:60]}")
                    if not all(tag(t) == "cat" and t[1][-1] == C("\n") and len(t[1]) == 2 for t in data):
                        rc.fail(fn, ev.node, "appended cid-list line is not `id + '\\n'`", A.p.loc(ev.func, ev.node))
    for e in ("delete_object", "tag_object"):
        it = A.api(e, "th")
        for ev in it.events:
            if ev.kind == "WRITE" and ev.prim in ("file.write", "file.writelines") and ev.func.qual == Q("_update_refs_file") \
                    and len(ev.paths) > 1 and any(c.cls == "CIDREFS" for c in primary(ev.classes[0])) and ev.extra.get("mode", "").startswith("r+"):
                rc.ob()
                rc.inst(f"{ev.func.qual}:{ev.line} rewrites the list with {showv(ev.paths[1])[:60]}")
                okd = all((tag(t) == "listof" and all(tag(x) == "line" for x in t[1])) or tag(t) == "line"
                          or (tag(t) == "cat" and t[1][-1] == C("\n")) for t in ev.paths[1])
                if not okd:
                    rc.fail(ev.func, ev.node, "the cid list is rewritten with something other than its own newline-terminated lines: the "
                            "one-pid-per-newline-terminated-line format is not preserved", A.p.loc(ev.func, ev.node))
    # a handle opened in text mode is positioned only at 0 (or where tell() said): any computed offset is a character
    # count, the file position is in bytes (and undefined for text files by the io documentation)
    for e in ("delete_object", "tag_object"):
        it = A.api(e, "th")
        for ev in it.events:
            if ev.kind == "HANDLEOP" and ev.prim == "file.seek" and "b" not in (ev.extra.get("mode") or "b"):
                rc.ob()
                rc.inst(f"{ev.func.qual}:{ev.line} seek on a text-mode handle")
                a0 = (ev.extra.get("args") or [EMPTY])[0]
                if not a0 or not all(t == C(0) or (tag(t) == "callres" and t[1] == "tell") for t in a0):
                    rc.fail(ev.func, ev.node, f"text-mode seek to a computed offset ({showv(a0)[:60]}): characters are counted, bytes are addressed - with a non-ASCII "
                            "pid earlier in the list the rewrite starts inside a line and the one-pid-per-line format is destroyed", A.p.loc(ev.func, ev.node))
            if ev.kind == "READ" and ev.prim in ("file.readlines", "file.read") and len(ev.paths) > 1 and ev.paths[1] \
                    and any(c_.cls in ("CIDREFS", "PIDREFS") for c_ in primary(ev.classes[0])) \
                    and not all(t == NONE or (is_const(t) and t[1] == -1) for t in ev.paths[1]):
                rc.ob()
                rc.inst(f"{ev.func.qual}:{ev.line} bounded {ev.prim}")
                rc.fail(ev.func, ev.node, f"`{norm(ev.node)[:60]}` reads a reference file up to a size limit / hint ({showv(ev.paths[1])[:40]}): a list longer than that is "
                        "rewritten (or judged) from its first part only - the pids listed further down silently lose their entry", A.p.loc(ev.func, ev.node))
            if ev.kind == "WRITE" and ev.prim == "file.truncate" and "b" not in (ev.extra.get("mode") or "b"):
                rc.ob()
                rc.inst(f"{ev.func.qual}:{ev.line} truncate on a text-mode handle")
                a0 = ev.paths[1] if len(ev.paths) > 1 else EMPTY
                if a0 and not all(t == NONE or (tag(t) == "callres" and t[1] == "tell") for t in a0):
                    rc.fail(ev.func, ev.node, f"text-mode truncate to a computed size ({showv(a0)[:60]}): characters are counted, bytes are cut - with a non-ASCII "
                            "pid among the lines kept the file is cut short and the last pid kept loses the end of its line", A.p.loc(ev.func, ev.node))
    vr = A.p.func(Q("_verify_hashstore_references"))
    # the content error is raised exactly on inequality of the file's whole content with the cid argument
    it_v = A.run(Q("_verify_hashstore_references"), "th")
    cmp_ok = False
    for k_, l_, st_, rv_ in it_v.exits:
        if k_ == "raise" and l_ == "PidRefsContentError":
            for f_, pol in st_.facts:
                if f_[0] == "cmp" and f_[1] in ("==", "!=") and (pol is False if f_[1] == "==" else pol is True):
                    sides = [f_[2], f_[3]]
                    for i in (0, 1):
                        if sides[i] == V(P("cid")) and sides[1 - i] and all(tag(t) == "content" for t in sides[1 - i]):
                            cmp_ok = True
    rc.ob()
    rc.inst("_verify_hashstore_references: pid reference content compared with == to the cid")
    if not cmp_ok:
        rc.fail(vr, "retrieved_cid != cid", "pid reference content is no longer compared for equality with the cid", A.p.loc(vr, vr.node))
    rules.append(rc)

    rd = Rule("C15", "C15.d", "hashstore.yaml is written with the documented keys and every reader reads keys the "
              "writer writes", floor=4)
    DOC = ["store_depth", "store_width", "store_metadata_namespace", "store_algorithm", "store_default_algo_list"]
    b = A.p.func(Q("_build_hashstore_yaml_string"))
    dicts = [n for n in ast.walk(b.node) if isinstance(n, ast.Dict) and n.keys]
    if not dicts:
        raise AnalysisError("_build_hashstore_yaml_string: configuration dict literal not found")
    written = [k.value for k in dicts[0].keys if isinstance(k, ast.Constant)]
    rd.inst(f"writer keys {written}")
    rd.ob()
    if sorted(written) != sorted(DOC):
        rd.fail(b, dicts[0], f"hashstore.yaml keys {sorted(written)} differ from the documented {sorted(DOC)}", A.p.loc(b, dicts[0]))
    # value wiring: each key maps to the parameter of the same name
    for k, v in zip(dicts[0].keys, dicts[0].values):
        if isinstance(k, ast.Constant) and k.value != "store_default_algo_list":
            rd.ob()
            if norm(v) != k.value:
                rd.fail(b, f"{k.value!r}: {norm(v)}", f"configuration key {k.value} is written from `{norm(v)}`", A.p.loc(b, v))
    readers = [(Q("_set_default_algorithms"), "yaml_data"), (Q("_load_properties"), "yaml_data"),
               ("HashStoreParser.load_store_properties", "yaml_data"), ("main", "yaml_data")]
    req = [e.value for e in A.p.class_attr_assigns(CLS)["property_required_keys"].elts]
    for fq, var in readers:
        f = A.p.func(fq)
        keys = set()
        # the local that holds the parsed configuration: whatever is assigned from a yaml load call
        loaded = {norm(a.targets[0]) for a in ast.walk(f.node) if isinstance(a, ast.Assign) and len(a.targets) == 1
                  and isinstance(a.value, ast.Call) and norm(a.value.func).startswith("yaml.")}
        names = loaded or {var}
        for n in ast.walk(f.node):
            if isinstance(n, ast.Subscript) and norm(n.value) in names:
                if isinstance(n.slice, ast.Constant):
                    keys.add(n.slice.value)
                elif fq == Q("_load_properties"):
                    keys |= {k for k in req if k != "store_path"}
                else:
                    for l in ast.walk(f.node):
                        if isinstance(l, ast.List) and all(isinstance(e, ast.Constant) for e in l.elts):
                            keys |= {e.value for e in l.elts}
        rd.inst(f"{fq} reads {sorted(keys)}")
        rd.ob()
        miss = sorted(k for k in keys if k not in written)
        if miss:
            rd.fail(fq, f"yaml keys {miss}", f"{fq} reads key(s) {miss} that the writer does not write", A.p.loc(f, f.node))
        if not keys:
            rd.fail(fq, "yaml keys", f"{fq} no longer reads any configuration key (anchor lost)", A.p.loc(f, f.node))
    rules.append(rd)

    # the documented configuration records depth and width as integers (README / the Java reader); the constructor accepts
    # integer-like strings, so what reaches the writer must have passed the integer coercion of the validator
    rh15 = Rule("C15", "C15.h", "the depth and width written to hashstore.yaml are integers: at the call that builds the file's text from the "
                "constructor, both values are results of int(...) (the validated copy), not the properties as the caller spelled them", floor=2)
    int_config_rule(A, rh15)
    rules.append(rh15)
    _src = [r for r in rules_of(A, "C11") if r.rid == "C11.a"][0]
    ri15 = Rule("C15", "C15.i", "a metadata document is addressed metadata/shard(H(pid))/H(pid + format_id) with the format id exactly as given "
                "(shared with C11.a): no stripping, case folding or other normalisation of the identifier before it is hashed", floor=_src.floor)
    ri15.instances, ri15.nontrivial, ri15.obligations = list(_src.instances), set(_src.nontrivial), _src.obligations
    for f in _src.findings:
        ri15.fail(f.func, f.construct, f.message, f.loc, f.detail)
    rules.append(ri15)
    # the depth, width, algorithm and default namespace an instance works with are the *supplied* ones; they are the
    # store's own only because the constructor established equality with hashstore.yaml (C14.a)
    from .rules_data import check_C14
    c14 = [r for r in rules_of(A, "C14") if r.rid == "C14.a"][0]
    rf15 = Rule("C15", "C15.f", "the layout parameters in use (depth, width, algorithm, default metadata namespace) are those pinned in hashstore.yaml: "
                "the constructor accepts supplied values only when equal to the stored ones (shared with C14.a)", floor=c14.floor)
    rf15.instances, rf15.nontrivial, rf15.obligations = list(c14.instances), set(c14.nontrivial), c14.obligations
    for f in c14.findings:
        rf15.fail(f.func, f.construct, f.message, f.loc, f.detail)
    rules.append(rf15)
    return rules


# =======================================================================================
def _raw_ident(t, idents, under_hash=False):
    """does an identifier parameter occur in the path term outside a hash?"""
    if t in idents and not under_hash:
        return True
    tg = tag(t)
    if tg in ("H", "hashof"):
        return False
    if not isinstance(t, tuple):
        return False
    for x in t[1:]:
        if isinstance(x, tuple):
            if x and isinstance(x[0], str):
                if _raw_ident(x, idents, under_hash):
                    return True
            else:
                for y in x:
                    if isinstance(y, tuple) and _raw_ident(y, idents, under_hash):
                        return True
        elif isinstance(x, frozenset):
            for y in x:
                if _raw_ident(y, idents, under_hash):
                    return True
    return False


def _callee_of(A, f, c):
    """the package function / method a call node denotes: self.m(..), Cls.m(..), func(..), Cls(..).m(..), v.m(..) with v = Cls(..)"""
    fn = c.func
    if isinstance(fn, ast.Name):
        g = A.p.funcs.get(fn.id)
        return g if g is not None and "." not in fn.id else None
    if isinstance(fn, ast.Attribute):
        v = fn.value
        if isinstance(v, ast.Name) and v.id in ("self", "cls", f.cls or ""):
            return A.p.method(f.cls, fn.attr) if f.cls else None
        if isinstance(v, ast.Name) and v.id in A.p.classes:
            return A.p.method(v.id, fn.attr)
        if isinstance(v, ast.Call) and isinstance(v.func, ast.Name) and v.func.id in A.p.classes:
            return A.p.method(v.func.id, fn.attr)
        if isinstance(v, ast.Name):
            ctors = [a.value.func.id for a in ast.walk(f.node) if isinstance(a, ast.Assign) and len(a.targets) == 1 and isinstance(a.targets[0], ast.Name)
                     and a.targets[0].id == v.id and isinstance(a.value, ast.Call) and isinstance(a.value.func, ast.Name) and a.value.func.id in A.p.classes]
            if len(set(ctors)) == 1:
                return A.p.method(ctors[0], fn.attr)
    return None


def whole_line_rule(A, rule):
    anchors = []
    for fq in (Q("_is_string_in_refs_file"), Q("_update_refs_file")):
        f0 = A.p.func(fq)
        anchors.append((fq, f0, f0.node.args.args[0 if f0.is_static else 1].arg if fq.endswith("_is_string_in_refs_file") else "ref_id"))
    for fq, f0, idp0 in anchors:
        # the anchor and the helpers (methods of helper classes included) it hands the identifier on to
        scope, todo = [], [(f0, idp0, 0)]
        while todo:
            g, var, depth = todo.pop()
            if any(g is x and var == v_ for x, v_ in scope) or depth > 3:
                continue
            scope.append((g, var))
            for c in ast.walk(g.node):
                if not isinstance(c, ast.Call):
                    continue
                callee = _callee_of(A, g, c)
                if callee is None or callee.qual in (a_[0] for a_ in anchors if a_[1] is not g):
                    continue
                params = [x.arg for x in callee.node.args.args]
                if params and params[0] in ("self", "cls") and not callee.is_static:
                    params = params[1:]
                for i_, a_ in enumerate(c.args):
                    if isinstance(a_, ast.Name) and a_.id == var and i_ < len(params):
                        todo.append((callee, params[i_], depth + 1))
                for k_ in c.keywords:
                    if isinstance(k_.value, ast.Name) and k_.value.id == var and k_.arg:
                        todo.append((callee, k_.arg, depth + 1))
        found_total = 0
        for f, idp in scope:
            found_total += _whole_line_in(A, rule, fq, f, idp)
        if found_total == 0:
            rule.inst(f"{fq}: no comparison of a line with the identifier")
            rule.fail(f0, "comparison with the identifier", f"{fq} no longer compares each stripped line with the identifier for equality", A.p.loc(f0, f0.node))


def _whole_line_in(A, rule, fq, f, idp):
    if True:
        # the identifier and every local computed from it (ref_line = ref_id + "\n", ...)
        ids = {idp}
        changed = True
        while changed:
            changed = False
            for a in ast.walk(f.node):
                if isinstance(a, ast.Assign) and len(a.targets) == 1 and isinstance(a.targets[0], ast.Name) \
                        and a.targets[0].id not in ids and any(isinstance(x, ast.Name) and x.id in ids for x in ast.walk(a.value)) \
                        and not any(isinstance(c, ast.Call) and norm(c.func).endswith("_is_string_in_refs_file") for c in ast.walk(a.value)):
                    ids.add(a.targets[0].id)
                    changed = True

        def mentions(n):
            return any(isinstance(x, ast.Name) and x.id in ids for x in ast.walk(n))

        found = 0
        for n in ast.walk(f.node):
            if isinstance(n, ast.Compare) and mentions(n) and not (isinstance(n.left, ast.Name) and n.left.id == "update_type"):
                # comparisons that decide membership: the other side is file content
                others = [x for x in [n.left] + n.comparators if not mentions(x)]
                if not others or all(isinstance(o, ast.Constant) for o in others):
                    continue
                found += 1
                rule.ob()
                rule.inst(f"{fq}: `{norm(n)}`")
                idside = [x for x in [n.left] + n.comparators if mentions(x)]
                ok = len(n.ops) == 1 and isinstance(n.ops[0], (ast.Eq, ast.NotEq)) and len(others) == 1 and len(idside) == 1 \
                    and isinstance(idside[0], ast.Name) and idside[0].id == idp
                if ok:
                    o = others[0]
                    if isinstance(o, ast.Name):
                        defs = [a.value for a in ast.walk(f.node) if isinstance(a, ast.Assign) and any(isinstance(t, ast.Name) and t.id == o.id for t in a.targets)]
                        o = defs[0] if len(defs) == 1 else o
                    ok = isinstance(o, ast.Call) and isinstance(o.func, ast.Attribute) and o.func.attr in ("strip", "rstrip") and not o.args
                if not ok:
                    rule.fail(f, n, "an identifier is matched against reference-file content by something other than equality of the "
                              "identifier with one stripped whole line: a pid that is a prefix/suffix/substring of another would alias it",
                              A.p.loc(f, n))
            if isinstance(n, ast.Call) and isinstance(n.func, ast.Attribute) and n.func.attr in ("startswith", "endswith", "find", "index", "count", "search", "match") \
                    and mentions(n):
                found += 1
                rule.ob()
                rule.inst(f"{fq}: `{norm(n)}`")
                rule.fail(f, n, f"identifier matched with .{n.func.attr}() instead of whole-line equality", A.p.loc(f, n))
        return found


def refs_codec_rule(A, rule):
    """every text-mode open of a reference file (permanent or its temp file) names the same codec, UTF-8 without a signature"""
    seen = set()
    for it, ev in all_events(A, PUBLIC_API, ALL_MODES):
        if ev.prim != "open" or not ev.classes or "b" in str(ev.extra.get("mode") or ""):
            continue
        cls = {c.cls for c in primary(ev.classes[0])}
        refs = cls & {"PIDREFS", "CIDREFS"} or any(c.cls == "TMP" and c.key == C("refs") for c in primary(ev.classes[0]))
        if not refs or (ev.func.qual, ev.line) in seen:
            continue
        seen.add((ev.func.qual, ev.line))
        rule.ob()
        enc = ev.extra.get("encoding")
        names = sorted({str(t[1]).lower().replace("-", "").replace("_", "") if is_const(t) else "?" for t in (enc or [])}) or ["<platform default>"]
        rule.inst(f"{ev.func.qual}:{ev.line} open(mode={ev.extra.get('mode')!r}, encoding={names})")
        if names != ["utf8"]:
            rule.fail(site_func(ev), site_text(ev), f"a reference file is opened with encoding {names} where every other reader and writer uses UTF-8: identifiers "
                      "are stored verbatim, so a codec that drops or adds characters (utf-8-sig swallows a leading U+FEFF, the platform default may not be "
                      "UTF-8 at all) makes one identifier read back as another", site_loc(A, ev))


def glob_rule(A, rule):
    seen18 = set()
    for it, ev in all_events(A, PUBLIC_API, ALL_MODES):
        if ev.extra and ev.extra.get("glob") and (ev.func.qual, ev.line) not in seen18:
            seen18.add((ev.func.qual, ev.line))
            rule.ob()
            rule.inst(f"{ev.func.qual}:{ev.line} glob")
            if not ev.extra.get("escaped"):
                rule.fail(site_func(ev), site_text(ev), "glob pattern built from a path that was not passed through glob.escape: pattern characters in the store "
                          "path (an accepted configuration) are interpreted - the listing comes back empty or lists other directories, so the delete-all "
                          "forms remove nothing (or something else)", site_loc(A, ev))


def check_C18(A: Analysis, tier):
    rules = []
    ra = Rule("C18", "C18.a", "pid and format_id reach a path only through the store hash (never raw)", floor=40)
    idents = {P("pid"), P("format_id")}
    for it, ev in all_events(A, PUBLIC_API, ALL_MODES):
        for i, v in enumerate(ev.paths or []):
            if ev.prim.startswith("file.") and i > 0:
                continue
            if ev.kind in ("HASH", "HASHUPDATE", "HASHNEW"):
                continue
            ra.ob()
            for t in v:
                if tag(t) == "param" and t[1] not in ("pid", "format_id"):
                    continue
                if _raw_ident(t, idents):
                    ra.fail(site_func(ev), site_text(ev), f"identifier reaches the file system un-hashed in {show(t)[:100]}: "
                            "path separators or '..' in a pid would escape or alias", site_loc(A, ev))
                else:
                    ra.inst(f"{ev.func.qual}:{ev.line} {ev.prim}[{i}]", nontrivial=any(x in idents for x in subterms(t)))
    rules.append(ra)

    re8 = Rule("C18", "C18.e", "the hash that separates identifiers covers the whole identifier (shared with C15.e): no prefix, "
               "block or file-dependent hashing in _computehash", floor=1)
    computehash_rule(A, re8)
    rules.append(re8)

    from .rules_locks import shared_state_rule
    rs8 = Rule("C18", "C18.f", "what a pid resolves to is read from the store's files on every call: the shared store object keeps no "
               "per-identifier memo (shared with C07.g)", floor=10)
    shared_state_rule(A, rs8)
    rules.append(rs8)

    rb = Rule("C18", "C18.b", "membership in and removal from a cid list compare the identifier with the stripped "
              "whole line for equality", floor=2)
    whole_line_rule(A, rb)
    rules.append(rb)

    rc = Rule("C18", "C18.c", "every caller-supplied value written as a line of a reference file has passed "
              "_check_string (no whitespace, hence no line break)", floor=2)
    for m in ALL_MODES:
        for e in ("tag_object", "store_object"):
            it = A.api(e, m)
            for ev in it.events:
                if ev.kind == "WRITE" and ev.prim == "file.write" and len(ev.paths) > 1 and \
                        (ev.func.qual in (Q("_write_refs_file"), Q("_update_refs_file")) or
                         any(c.cls in ("CIDREFS", "PIDREFS") or (c.cls == "TMP" and c.key == C("refs")) for c in ev.classes[0])):
                    rc.ob()
                    rc.inst(f"{ev.func.qual}:{ev.line} writes {showv(ev.paths[1])[:50]}")
                    for t in ev.paths[1]:
                        # the value written: the term itself or the parts of `x + "\n"`; a
                        # digest (H(..), digestmap[..]) is hex by construction
                        parts = t[1] if tag(t) == "cat" else (t,)
                        for x in parts:
                            if tag(x) == "param" and ("argof", Q("_check_string"), "string", x) not in ev.done:
                                rc.fail(site_func(ev), site_text(ev), f"`{x[1]}` is written into a line-oriented reference file without having "
                                        "passed _check_string on this path", site_loc(A, ev))
    rules.append(rc)

    rd = Rule("C18", "C18.d", "every file or directory created, and every rename destination, is a term rooted at the "
              "store root built from entity constants, shard(H(.)), shard(cid), H(.), temp names and markers", floor=10)
    for it, ev in all_events(A, PUBLIC_API, ALL_MODES):
        idx = None
        if ev.kind in ("CREATE", "MKDIR"):
            idx = 0
        elif ev.kind == "RENAME":
            idx = 1
        if idx is None or ev.prim.startswith("file."):
            continue
        rd.ob()
        rd.inst(f"{ev.func.qual}:{ev.line} {ev.kind}")
        for t in ev.paths[idx]:
            c = classify(t)
            b = base_class(c)
            if not is_rooted(t) and not (c.cls in ("BOGUS",)):
                # fall-back candidates of the look-up helpers are not destinations (C15.a)
                if any(cc.cls not in ("FALLBACK", "RAWID", "RELATIVE", "BOGUS") for cc in primary(ev.classes[idx])) and b.cls in ("RAWID", "RELATIVE", "FALLBACK"):
                    continue
                rd.fail(site_func(ev), site_text(ev), f"{ev.kind} destination {show(t)[:100]} is not rooted at the store root", site_loc(A, ev))
    rules.append(rd)
    rh18 = Rule("C18", "C18.h", "reference files are read and written with one codec, plain UTF-8 (identifiers are opaque: every character of a pid, a "
                "leading U+FEFF included, comes back as it was written)", floor=4)
    refs_codec_rule(A, rh18)
    rules.append(rh18)
    rg18 = Rule("C18", "C18.g", "a directory is listed literally: where glob is used, the directory part of the pattern went through glob.escape - the "
                "characters of a store path or identifier are never read as a pattern (`[v2]`, `*`, `?` in the configured store path would make "
                "the listing miss the directory, or reach other directories)", floor=0)
    glob_rule(A, rg18)
    rules.append(rg18)
    return rules
