"""Primitive table: every file-system / process-level call of the standard library the
package makes, with its effect kind.  Filled from an inventory of all `os.*`, `os.path.*`,
`shutil.*`, `io.*`, `open`, `pathlib.Path.*`, `tempfile.*`, `fcntl.*`, `atexit.*` calls in
src/hashstore at the pinned commit.  A call into one of these modules that is *not* listed
is an analysis error, so a new kind of file access cannot pass unclassified."""

# kind: PROBE READ CREATE WRITE RENAME REMOVE MKDIR FLOCK CHMOD OTHER
# paths: indices of positional arguments that are paths (RENAME: (src, dst))
# raises: whether an I/O failure of the call surfaces as an exception
PRIMS = {
    "os.path.isfile": ("PROBE", (0,), False),
    "os.path.exists": ("PROBE", (0,), False),
    "os.path.isdir": ("PROBE", (0,), False),
    "os.path.getsize": ("PROBE", (0,), True),
    "os.stat": ("PROBE", (0,), True),
    "os.listdir": ("PROBE", (0,), True),
    "glob.glob": ("PROBE", (0,), False),
    "glob.iglob": ("PROBE", (0,), False),
    "glob.escape": ("OTHER", (), False),
    "os.walk": ("PROBE", (0,), False),
    "os.remove": ("REMOVE", (0,), True),
    "os.unlink": ("REMOVE", (0,), True),
    "os.rename": ("RENAME", (0, 1), True),
    "os.replace": ("RENAME", (0, 1), True),
    "shutil.move": ("RENAME", (0, 1), True),
    "os.makedirs": ("MKDIR", (0,), True),
    "os.mkdir": ("MKDIR", (0,), True),
    # chmod of the temp file this process created a moment ago in the store's own tmp
    # directory: its failure is not modelled (it would precede the writer's clean-up scope)
    "os.chmod": ("CHMOD", (0,), False),
    "os.umask": ("OTHER", (), False),
    "os.getenv": ("OTHER", (), False),
    "fcntl.flock": ("FLOCK", (0,), True),
    # POSIX record locks: owned by the process (no exclusion between two descriptors / two store objects of one process) and
    # dropped as soon as the process closes ANY descriptor of the file - not the advisory lock the cid list protocol relies on
    "fcntl.lockf": ("LOCKF", (0,), True),
    # length changes through a descriptor / path (not through writing the data): judged by C01.e / C09 on temp files
    "os.posix_fallocate": ("SETLEN", (0,), True),
    "os.ftruncate": ("SETLEN", (0,), True),
    "os.truncate": ("SETLEN", (0,), True),
    "fcntl.fcntl": ("LOCKF", (0,), True),
    "atexit.register": ("OTHER", (), False),
    "os.register_at_fork": ("OTHER", (), False),   # hooks: judged by rule C16.g (what the callbacks touch)
    "os.getpid": ("OTHER", (), False),
    "os.getppid": ("OTHER", (), False),
    "tempfile.NamedTemporaryFile": ("CREATE", (), True),
    # not used by the package today; classified so that a realistic edit is judged, not refused
    "os.scandir": ("PROBE", (0,), True),
    "os.access": ("PROBE", (0,), False),
    "os.path.getmtime": ("PROBE", (0,), True),
    "os.path.getctime": ("PROBE", (0,), True),
    "os.path.islink": ("PROBE", (0,), False),
    "os.path.lexists": ("PROBE", (0,), False),
    "os.lstat": ("PROBE", (0,), True),
    "os.truncate": ("WRITE", (0,), True),
    "os.utime": ("CHMOD", (0,), True),
    "os.chown": ("CHMOD", (0,), True),
    "os.rmdir": ("REMOVE", (0,), True),
    "os.removedirs": ("REMOVE", (0,), True),
    "shutil.rmtree": ("REMOVE", (0,), True),
    "os.renames": ("RENAME", (0, 1), True),
    "os.link": ("CREATE", (1,), True),
    "os.symlink": ("CREATE", (1,), True),
    "shutil.copy": ("CREATE", (1,), True),
    "shutil.copy2": ("CREATE", (1,), True),
    "shutil.copyfile": ("CREATE", (1,), True),
    "shutil.copytree": ("CREATE", (1,), True),
    "os.close": ("OTHER", (), False),
    "os.fsync": ("OTHER", (), True),
    "os.sync": ("OTHER", (), False),
    "os.getpid": ("OTHER", (), False),
    "os.getcwd": ("OTHER", (), False),
    "os.fspath": ("OTHER", (), False),
    # open / io.open handled specially (mode decides READ vs CREATE/WRITE)
}

PURE_PATH_FUNCS = {
    "os.path.join", "os.path.dirname", "os.path.basename", "pathlib.Path",
}
IDENTITY_PATH_FUNCS = {"os.path.abspath", "os.path.realpath", "os.path.normpath", "os.path.expanduser", "os.fspath",
                       "os.path.normcase", "os.fsdecode", "os.fsencode"}

# modules whose every call must be in PRIMS / PURE_PATH_FUNCS / OPEN
GUARDED_MODULES = ("os", "shutil", "io", "fcntl", "tempfile", "atexit", "pathlib")

OPEN_NAMES = {"open", "io.open"}

MUTATING = {"CREATE", "WRITE", "RENAME", "REMOVE", "MKDIR", "CHMOD"}
# what counts as changing *store state* (directories are not reference state, CHMOD only
# ever touches a fresh temp file)
STATE_MUTATING = {"CREATE", "WRITE", "RENAME", "REMOVE"}


def open_kind(mode: str):
    """effect kind of open(path, mode)"""
    if mode is None:
        return None
    m = mode.replace("b", "").replace("t", "")
    if m in ("r", ""):
        return "READ"
    if m in ("w", "x", "w+", "x+"):
        return "CREATE"
    if m in ("a", "a+", "r+"):
        return "WRITE"
    return None


# file-object methods: receiver is a ("handle", path, mode, site) term
HANDLE_METHODS = {
    "read": ("READ", True),
    "readlines": ("READ", True),
    "readline": ("READ", True),
    "write": ("WRITE", True),
    "writelines": ("WRITE", True),
    "truncate": ("WRITE", True),
    "seek": ("OTHER", True),
    "tell": ("OTHER", True),
    "fileno": ("OTHER", False),
    "close": ("CLOSE", False),
    "flush": ("OTHER", True),
}

# calls that never raise for the purposes of the path rules (DESIGN §8 assumption 3) and have
# no effect: logging, string formatting, pure constructors, container queries
NONRAISING_BUILTINS = {
    "str", "bool", "isinstance", "hasattr", "type", "len", "any", "all", "range", "zip", "dict",
    "list", "set", "tuple", "sorted", "print", "repr", "enumerate", "frozenset", "iter",
}
RAISING_BUILTINS = {"int", "bytes", "float", "next", "getattr"}
