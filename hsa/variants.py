"""Self-test of the rules on variants of the *current* source (DESIGN §6).

Every variant is a small edit of /repo's current source text, located by an anchor that
must occur exactly once; the edited sources are analysed **in memory** (nothing is written
anywhere).  A *breaking* variant must be reported by the rule named with it; a *twin*
(behaviour-preserving rewrite) must be reported by no rule of the property.  A variant
whose anchor is gone is counted as skipped (the code moved on), never as a pass.
"""

from __future__ import annotations

import ast
import re

from .loader import Program, read_sources
from .terms import AnalysisError

FHS = "filehashstore.py"
CLI = "hashstoreclient.py"


def rep(fn, old, new, count=1):
    def f(src):
        s = src[fn]
        if s.count(old) != count:
            return None
        out = dict(src)
        out[fn] = s.replace(old, new)
        return out
    return f


def rep_in(fn, func_name, old, new, count=1):
    """replace inside the text of one function only"""
    def f(src):
        s = src[fn]
        tree = ast.parse(s)
        target = None
        scope, name = (tree, func_name)
        if "." in func_name:
            cname, name = func_name.split(".", 1)
            scope = next((c for c in ast.walk(tree) if isinstance(c, ast.ClassDef) and c.name == cname), None)
            if scope is None:
                return None
        for n in ast.walk(scope):
            if isinstance(n, (ast.FunctionDef,)) and n.name == name:
                target = n
                break
        if target is None:
            return None
        lines = s.splitlines(keepends=True)
        a, b = target.lineno - 1, target.end_lineno
        body = "".join(lines[a:b])
        if body.count(old) != count:
            return None
        out = dict(src)
        out[fn] = "".join(lines[:a]) + body.replace(old, new) + "".join(lines[b:])
        return out
    return f


def unparse_roundtrip(fn):
    def f(src):
        out = dict(src)
        out[fn] = ast.unparse(ast.parse(src[fn])) + "\n"
        return out
    return f


def rename_locals(fn, suffix="_rn"):
    """alpha-rename every local variable (not parameters, not attributes, not globals) of every function in the
    module: a behaviour-preserving edit that changes the source text of nearly every statement"""
    import builtins

    class Scope(ast.NodeTransformer):
        def __init__(self, rename):
            self.rename = rename

        def _locals_of(self, fnode):
            params = {a.arg for a in fnode.args.args + fnode.args.kwonlyargs + fnode.args.posonlyargs}
            if fnode.args.vararg:
                params.add(fnode.args.vararg.arg)
            if fnode.args.kwarg:
                params.add(fnode.args.kwarg.arg)
            stored, declared = set(), set()

            def walk(n, top=True):
                for c in ast.iter_child_nodes(n):
                    if isinstance(c, (ast.FunctionDef, ast.AsyncFunctionDef, ast.Lambda, ast.ClassDef)):
                        if isinstance(c, (ast.FunctionDef, ast.AsyncFunctionDef, ast.ClassDef)):
                            declared.add(c.name)
                        continue
                    if isinstance(c, ast.Name) and isinstance(c.ctx, (ast.Store, ast.Del)):
                        stored.add(c.id)
                    if isinstance(c, ast.ExceptHandler) and c.name:
                        stored.add(c.name)
                    if isinstance(c, (ast.Global, ast.Nonlocal)):
                        declared.update(c.names)
                    if isinstance(c, (ast.Import, ast.ImportFrom)):
                        declared.update((a.asname or a.name).split(".")[0] for a in c.names)
                    walk(c, False)
            walk(fnode)
            return (stored - params - declared - set(dir(builtins))), params | declared

        def visit_FunctionDef(self, node):
            loc, shadow = self._locals_of(node)
            ren = {k: v for k, v in self.rename.items() if k not in shadow}
            ren.update({x: x + suffix for x in loc})
            inner = Scope(ren)
            node.body = [inner.visit(b) for b in node.body]
            return node

        visit_AsyncFunctionDef = visit_FunctionDef

        def visit_Lambda(self, node):
            params = {a.arg for a in node.args.args}
            inner = Scope({k: v for k, v in self.rename.items() if k not in params})
            node.body = inner.visit(node.body)
            return node

        def visit_Name(self, node):
            if node.id in self.rename:
                node.id = self.rename[node.id]
            return node

        def visit_ExceptHandler(self, node):
            if node.name and node.name in self.rename:
                node.name = self.rename[node.name]
            self.generic_visit(node)
            return node

    def f(src):
        out = dict(src)
        tree = ast.parse(src[fn])
        tree = Scope({}).visit(tree)
        ast.fix_missing_locations(tree)
        out[fn] = ast.unparse(tree) + "\n"
        return out
    return f


def _terminal(stmts):
    return bool(stmts) and isinstance(stmts[-1], (ast.Return, ast.Raise, ast.Continue, ast.Break))


def restructure_ifs(fn, how):
    """mechanical, behaviour-preserving restructuring of every `if ... else ...` of the module:
    how="guard":  `if c: A(ends in return/raise/continue/break) else: B`  ->  `if c: A` followed by B
    how="invert": `if c: A else: B`  ->  `if not c: B else: A`"""
    class T(ast.NodeTransformer):
        def _block(self, stmts):
            out = []
            for st in stmts:
                st = self.visit(st)
                if how == "guard" and isinstance(st, ast.If) and st.orelse and _terminal(st.body):
                    tail = st.orelse
                    st.orelse = []
                    out.append(st)
                    out.extend(tail)
                else:
                    out.append(st)
            return out

        def generic_visit(self, node):
            super().generic_visit(node)
            for fld in ("body", "orelse", "finalbody"):
                v = getattr(node, fld, None)
                if isinstance(v, list) and v and isinstance(v[0], ast.stmt):
                    setattr(node, fld, self._block(v))
            return node

        def visit_If(self, node):
            self.generic_visit(node)
            if how == "splitand" and not node.orelse and isinstance(node.test, ast.BoolOp) and isinstance(node.test.op, ast.And):
                inner = node.body
                for cond in reversed(node.test.values[1:]):
                    inner = [ast.If(test=cond, body=inner, orelse=[])]
                node.test = node.test.values[0]
                node.body = inner
                return node
            if how == "mergeand" and not node.orelse and len(node.body) == 1 and isinstance(node.body[0], ast.If) and not node.body[0].orelse:
                node.test = ast.BoolOp(op=ast.And(), values=[node.test, node.body[0].test])
                node.body = node.body[0].body
                return node
            if how == "invert" and node.orelse:
                node.test = ast.UnaryOp(op=ast.Not(), operand=node.test)
                node.body, node.orelse = node.orelse, node.body
            return node

    def f(src):
        out = dict(src)
        tree = T().visit(ast.parse(src[fn]))
        ast.fix_missing_locations(tree)
        out[fn] = ast.unparse(tree) + "\n"
        return out
    return f


def mechanical(fn, how):
    """further mechanical behaviour-preserving rewrites of a whole module:
    how="swapeq":   `a == b` / `a != b`  ->  `b == a` / `b != a` (builtin str / int / None operands throughout the package)
    how="keywords": positional arguments of calls `self.m(...)` to methods of the same class passed by keyword
    how="retinline": `x = <expr>` immediately followed by `return x`  ->  `return <expr>`
    how="withmerge": `with A: with B: body` (nothing else in the outer body)  ->  `with A, B: body`
    how="waitfor":  `while K in L: <logging>; C.wait()`  ->  `C.wait_for(lambda: K not in L)`"""
    def f(src):
        out = dict(src)
        tree = ast.parse(src[fn])
        sigs = {}
        for c in ast.walk(tree):
            if isinstance(c, ast.ClassDef):
                for m in c.body:
                    if isinstance(m, ast.FunctionDef):
                        static = any(ast.unparse(d) == "staticmethod" for d in m.decorator_list)
                        names = [a.arg for a in m.args.args]
                        if not static and names:
                            names = names[1:]
                        if m.args.vararg is None and m.name not in sigs:
                            sigs[m.name] = names
                        else:
                            sigs[m.name] = None

        class T(ast.NodeTransformer):
            def visit_Compare(self, node):
                self.generic_visit(node)
                if how == "swapeq" and len(node.ops) == 1 and isinstance(node.ops[0], (ast.Eq, ast.NotEq)):
                    node.left, node.comparators = node.comparators[0], [node.left]
                return node

            def visit_Call(self, node):
                self.generic_visit(node)
                if how == "keywords" and isinstance(node.func, ast.Attribute) and isinstance(node.func.value, ast.Name) \
                        and node.func.value.id == "self" and sigs.get(node.func.attr) and not any(isinstance(a, ast.Starred) for a in node.args) \
                        and len(node.args) <= len(sigs[node.func.attr]):
                    names = sigs[node.func.attr]
                    node.keywords = [ast.keyword(arg=names[i], value=a) for i, a in enumerate(node.args)] + node.keywords
                    node.args = []
                return node

            def _block(self, stmts):
                outb = []
                i = 0
                while i < len(stmts):
                    st = stmts[i]
                    nxt = stmts[i + 1] if i + 1 < len(stmts) else None
                    if how == "retinline" and isinstance(st, ast.Assign) and len(st.targets) == 1 and isinstance(st.targets[0], ast.Name) \
                            and isinstance(nxt, ast.Return) and isinstance(nxt.value, ast.Name) and nxt.value.id == st.targets[0].id:
                        outb.append(ast.Return(value=st.value))
                        i += 2
                        continue
                    if how == "waitfor" and isinstance(st, ast.While) and not st.orelse and isinstance(st.test, ast.Compare) \
                            and len(st.test.ops) == 1 and isinstance(st.test.ops[0], ast.In):
                        waits = [b for b in st.body if isinstance(b, ast.Expr) and isinstance(b.value, ast.Call)
                                 and isinstance(b.value.func, ast.Attribute) and b.value.func.attr == "wait" and not b.value.args]
                        from .locks import is_logging_stmt as _isl
                        if len(waits) == 1 and all(b is waits[0] or _isl(b) for b in st.body):
                            pred = ast.Lambda(args=ast.arguments(posonlyargs=[], args=[], kwonlyargs=[], kw_defaults=[], defaults=[]),
                                              body=ast.Compare(left=st.test.left, ops=[ast.NotIn()], comparators=st.test.comparators))
                            outb.append(ast.Expr(value=ast.Call(func=ast.Attribute(value=waits[0].value.func.value, attr="wait_for", ctx=ast.Load()),
                                                                args=[pred], keywords=[])))
                            i += 1
                            continue
                    if how == "withmerge" and isinstance(st, ast.With) and len(st.body) == 1 and isinstance(st.body[0], ast.With):
                        inner = st.body[0]
                        st.items = st.items + inner.items
                        st.body = inner.body
                    outb.append(st)
                    i += 1
                return outb

            def generic_visit(self, node):
                super().generic_visit(node)
                for fld in ("body", "orelse", "finalbody"):
                    v = getattr(node, fld, None)
                    if isinstance(v, list) and v and isinstance(v[0], ast.stmt):
                        setattr(node, fld, self._block(v))
                return node

        tree = T().visit(tree)
        ast.fix_missing_locations(tree)
        out[fn] = ast.unparse(tree) + "\n"
        return out
    return f


def more_mechanical(fn, how):
    """how="tempargs": in every expression / assignment / return statement whose value is a call, each argument that is
    itself a call is first bound to a fresh local (left to right), then passed:  f(g(x), y)  ->  _t1 = g(x); f(_t1, y)
    how="logging":  a debug logging statement is inserted at the start of every block of every method of a class"""
    def f(src):
        out = dict(src)
        tree = ast.parse(src[fn])
        counter = [0]

        def fresh():
            counter[0] += 1
            return f"_tmp_arg_{counter[0]}"

        class T(ast.NodeTransformer):
            def __init__(self):
                self.in_method = False

            def visit_ClassDef(self, node):
                old_, self.in_method = self.in_method, True
                self.generic_visit(node)
                self.in_method = old_
                return node

            def visit_Lambda(self, node):
                return node

            def _block(self, stmts, owner):
                outb = []
                if how == "logging" and self.in_method and stmts and not isinstance(owner, ast.ClassDef) \
                        and not (isinstance(stmts[0], ast.Expr) and isinstance(stmts[0].value, ast.Constant)):
                    outb.append(ast.parse('logging.debug("trace")').body[0])
                for st in stmts:
                    if how == "tempargs" and isinstance(st, (ast.Expr, ast.Assign, ast.Return)) and isinstance(st.value, ast.Call) \
                            and not any(isinstance(a, ast.Starred) for a in st.value.args):
                        call = st.value
                        pre = []
                        for i, a in enumerate(call.args):
                            if isinstance(a, ast.Call):
                                nm = fresh()
                                pre.append(ast.Assign(targets=[ast.Name(id=nm, ctx=ast.Store())], value=a))
                                call.args[i] = ast.Name(id=nm, ctx=ast.Load())
                            elif not isinstance(a, (ast.Name, ast.Constant, ast.Attribute)):
                                break   # keep left-to-right evaluation: stop at the first argument that is not trivially pure
                        outb.extend(pre)
                    outb.append(st)
                    if how == "logging" and self.in_method and isinstance(st, ast.Expr) and isinstance(st.value, ast.Constant) and st is stmts[0]:
                        outb.append(ast.parse('logging.debug("trace")').body[0])
                return outb

            def generic_visit(self, node):
                super().generic_visit(node)
                for fld in ("body", "orelse", "finalbody"):
                    v = getattr(node, fld, None)
                    if isinstance(v, list) and v and isinstance(v[0], ast.stmt):
                        setattr(node, fld, self._block(v, node))
                return node

        tree = T().visit(tree)
        ast.fix_missing_locations(tree)
        out[fn] = ast.unparse(tree) + "\n"
        return out
    return f


def delegate_public(fn, names):
    """every listed method of FileHashStore keeps its signature and delegates to a new private `_<name>_impl` that holds its body"""
    def f(src):
        out = dict(src)
        tree = ast.parse(src[fn])
        for c in tree.body:
            if isinstance(c, ast.ClassDef) and c.name == "FileHashStore":
                new = []
                for m in c.body:
                    if isinstance(m, ast.FunctionDef) and m.name in names and not m.decorator_list:
                        impl = ast.FunctionDef(name=f"_{m.name}_impl", args=m.args, body=m.body, decorator_list=[], returns=m.returns, type_params=[])
                        params = [a.arg for a in m.args.args[1:]]
                        call = ast.Call(func=ast.Attribute(value=ast.Name(id="self", ctx=ast.Load()), attr=impl.name, ctx=ast.Load()),
                                        args=[ast.Name(id=p_, ctx=ast.Load()) for p_ in params], keywords=[])
                        new += [ast.FunctionDef(name=m.name, args=m.args, body=[ast.Return(value=call)], decorator_list=[], returns=m.returns, type_params=[]), impl]
                    else:
                        new.append(m)
                c.body = new
        ast.fix_missing_locations(tree)
        out[fn] = ast.unparse(tree) + "\n"
        return out
    return f


def chain(*fs):
    def f(src):
        for g in fs:
            src = g(src)
            if src is None:
                return None
        return src
    return f



def replace_function(fn, func_name, new_text, extra_import=None):
    """replace the whole text of one method by new_text"""
    def f(src):
        s = src[fn]
        tree = ast.parse(s)
        target = None
        for n in ast.walk(tree):
            if isinstance(n, ast.FunctionDef) and n.name == func_name:
                target = n
                break
        if target is None:
            return None
        lines = s.splitlines(keepends=True)
        a, b = target.lineno - 1, target.end_lineno
        if target.decorator_list:
            a = min(d.lineno for d in target.decorator_list) - 1
        out = dict(src)
        txt = "".join(lines[:a]) + new_text + "".join(lines[b:])
        if extra_import and extra_import not in txt:
            txt = txt.replace("from contextlib import closing", extra_import, 1)
        out[fn] = txt
        return out
    return f


CM_OK = '    def _delete_object_only(self, cid: str) -> None:\n        """Attempt to delete an object based on the given content identifier (cid)."""\n        cid_refs_abs_path = self._get_hashstore_cid_refs_path(cid)\n        with self._cid_claimed(cid):\n            if os.path.isfile(cid_refs_abs_path):\n                self.fhs_logger.debug("Cid reference file exists, skipping delete request.")\n            else:\n                self._delete("objects", cid)\n                self.fhs_logger.info("Deleted object only")\n\n    @contextmanager\n    def _cid_claimed(self, cid: str):\n        """Hold the claim on a cid for the duration of a with block."""\n        self._synchronize_object_locked_cids(cid)\n        try:\n            yield\n        finally:\n            self._release_object_locked_cids(cid)\n\n'
CM_BAD = '    def _delete_object_only(self, cid: str) -> None:\n        """Attempt to delete an object based on the given content identifier (cid)."""\n        cid_refs_abs_path = self._get_hashstore_cid_refs_path(cid)\n        with self._cid_claimed(cid):\n            if os.path.isfile(cid_refs_abs_path):\n                self.fhs_logger.debug("Cid reference file exists, skipping delete request.")\n            else:\n                self._delete("objects", cid)\n                self.fhs_logger.info("Deleted object only")\n\n    @contextmanager\n    def _cid_claimed(self, cid: str):\n        """Hold the claim on a cid for the duration of a with block."""\n        self._synchronize_object_locked_cids(cid)\n        yield\n        self._release_object_locked_cids(cid)\n\n'

# (property, expected rule or None for a twin, name, edit)
VARIANTS = [
    # ---- C01
    ("C01", "C01.a", "Stream no longer guards obj.name for AttributeError",
     rep(FHS, "except (AttributeError, FileNotFoundError, PermissionError, OSError):", "except (FileNotFoundError, PermissionError, OSError):")),
    ("C01", "C01.b", "Stream.close closes the caller's stream",
     rep_in(FHS, "close", "if self._pos is None:", "if self._pos is not None:")),
    ("C01", "C01.b", "Stream records pos=None for a caller-owned stream",
     rep(FHS, "            pos = obj.tell()\n", "            pos = None\n")),
    ("C01", "C01.c", "hash objects are fed something other than the chunk written",
     rep(FHS, "hash_algorithm.update(self._cast_to_bytes(data))", "hash_algorithm.update(self._cast_to_bytes(data[:-1]))")),
    ("C01", "C01.c", "cid taken from md5 instead of the store algorithm",
     rep_in(FHS, "_move_and_get_checksums", "object_cid = hex_digests.get(self.algorithm)", 'object_cid = hex_digests.get("md5")')),
    ("C01", "C01.b", "Stream used outside `with closing`",
     rep_in(FHS, "_store_data_only", "            with closing(stream):\n                (", "            if True:\n                (")),
    ("C01", None, "twin: reformat the module (ast round trip)", unparse_roundtrip(FHS)),
    # ---- C02
    ("C02", "C02.a", "per-call list aliases the instance default list again",
     rep(FHS, "algorithm_list_to_calculate = list(self.default_algo_list)", "algorithm_list_to_calculate = self.default_algo_list")),
    ("C02", "C02.a", "other_algo_list extended in place",
     rep(FHS, "            if checksum_algorithm in self.other_algo_list:", "            self.other_algo_list.append(checksum_algorithm)\n            if checksum_algorithm in self.other_algo_list:")),
    ("C02", "C02.b", "checksum algorithm used without _clean_algorithm",
     rep(FHS, "checksum_algorithm_checked = self._clean_algorithm(checksum_algorithm)\n        return", "checksum_algorithm_checked = checksum_algorithm\n        return")),
    ("C02", "C02.c", "unsupported name in other_algo_list",
     rep(FHS, '        "blake2s",\n    ]', '        "blake2s",\n        "sha999",\n    ]')),
    ("C02", "C02.c", "yaml default list names an algorithm the translation table lacks",
     rep(FHS, '                "SHA-512",\n            ],', '                "SHA-512",\n                "SHA-224",\n            ],')),
    ("C02", None, "twin: copy the default list with slicing", rep(FHS, "list(self.default_algo_list)", "self.default_algo_list[:]")),
    # ---- C03
    ("C03", "C03.a", "pid-refs-exists branch no longer rejects",
     rep(FHS, "                    raise PidRefsAlreadyExistsError(error_msg)", "                    pass")),
    ("C03", "C03.b", "generic roll-back handler placed before the rejection handler",
     rep(FHS, "            except (\n                HashStoreRefsAlreadyExists,\n                PidRefsAlreadyExistsError,\n            ) as expected_exceptions:\n                raise expected_exceptions\n",
         "")),
    ("C03", "C03.c", "tag_object converts the rejection class",
     rep_in(FHS, "tag_object", "raise PidRefsAlreadyExistsError(err_msg)", "raise ValueError(err_msg)")),
    ("C03", None, "twin: third branch tests only the cid list (implied by the two earlier branches)",
     rep(FHS, "                elif not os.path.isfile(pid_refs_path) and os.path.isfile(\n                    cid_refs_path\n                ):", "                elif os.path.isfile(cid_refs_path):")),
    # ---- C04
    ("C04", "C04.b", "object removed without the emptiness test",
     rep_in(FHS, "delete_object", "if os.path.getsize(cid_ref_abs_path) == 0:\n                        debug_msg", "if True:\n                        debug_msg")),
    ("C04", "C04.b", "delete_if_invalid_object ignores the cid reference file",
     rep_in(FHS, "_delete_object_only", "if os.path.isfile(cid_refs_abs_path):", "if False:")),
    ("C04", "C04.a", "tag_object roll-back deletes the object",
     rep_in(FHS, "_untag_object", "        untag_obj_delete_list = []\n", '        untag_obj_delete_list = []\n        self._delete("objects", cid)\n')),
    ("C04", "C04.d", "delete_metadata also drops the pid reference",
     rep_in(FHS, "delete_metadata", "        rel_path = Path(*self._shard(metadata_directory))\n",
            "        rel_path = Path(*self._shard(metadata_directory))\n        os.remove(self._get_hashstore_pid_refs_path(pid))\n")),
    ("C04", "C04.f", "last reference no longer removes the object",
     rep_in(FHS, "delete_object", "                        objects_to_delete.append(\n                            self._rename_path_for_deletion(obj_real_path)\n                        )\n", "")),
    # ---- C05
    ("C05", "C05.a", "missing-object branch reads the pid reference after renaming it",
     rep_in(FHS, "delete_object",
            "                pid_refs_cid = self._read_small_file_content(pid_ref_abs_path)\n                objects_to_delete.append(\n                    self._rename_path_for_deletion(pid_ref_abs_path)\n                )\n",
            "                objects_to_delete.append(\n                    self._rename_path_for_deletion(pid_ref_abs_path)\n                )\n                pid_refs_cid = self._read_small_file_content(pid_ref_abs_path)\n")),
    ("C05", "C05.b", "markers of the main branch never removed",
     rep_in(FHS, "delete_object", "                    # Remove all files confirmed for deletion\n                    self._delete_marked_files(objects_to_delete)\n", "")),
    ("C05", "C05.e", "duplicate branch keeps its temp file",
     rep_in(FHS, "_move_and_get_checksums", "                if os.path.isfile(tmp_file_name):\n                    self._delete(\"tmp\", tmp_file_name)\n", "                pass\n")),
    ("C05", "C05.c", "emptied cid list left behind in the missing-object branch",
     rep_in(FHS, "delete_object", "                        if os.path.getsize(cid_ref_abs_path) == 0:\n                            objects_to_delete.append(\n                                self._rename_path_for_deletion(cid_ref_abs_path)\n                            )\n", "")),
    # ---- C06
    ("C06", "C06.a", "pre-computed digest compared case-sensitively",
     rep(FHS, "if hex_digest_stored != checksum.lower():", "if hex_digest_stored != checksum:")),
    ("C06", "C06.b", "new content published without a verdict",
     rep_in(FHS, "_move_and_get_checksums", "            # Files are stored once and only once\n            self._verify_object_information(", "            # Files are stored once and only once\n            (lambda *a: None)(")),
    ("C06", "C06.d", "invalid checksum verdict no longer deletes",
     rep_in(FHS, "delete_if_invalid_object", "            except NonMatchingChecksum as mmce:\n                self._delete_object_only(object_metadata.cid)\n", "            except NonMatchingChecksum as mmce:\n")),
    ("C06", "C06.c", "size mismatch for a pid leaves the temp file",
     rep_in(FHS, "_verify_object_information", "                if pid is not None:\n                    self._delete(entity, tmp_file_name)\n                    err_msg_for_pid = (\n                        f\"{err_msg} Tmp", "                if pid is not None:\n                    err_msg_for_pid = (\n                        f\"{err_msg} Tmp")),
    ("C06", "C06.e", "checksum without algorithm accepted",
     rep_in(FHS, "_check_arg_algorithms_and_checksum", "        if checksum is not None:\n            self._check_string(checksum_algorithm, \"checksum_algorithm\")\n", "")),
    # ---- C07
    ("C07", "C07.a", "delete_object drops the reference-pid claim",
     chain(rep_in(FHS, "delete_object", "            self._synchronize_referenced_locked_pids(pid)\n", ""),
           rep_in(FHS, "delete_object", "            self._release_reference_locked_pids(pid)\n", ""))),
    ("C07", "C07.a", "main branch of delete_object works without the cid claim",
     chain(rep_in(FHS, "delete_object", "                self._synchronize_object_locked_cids(cid)\n", ""),
           rep_in(FHS, "delete_object", "                finally:\n                    # Release cid\n                    self._release_object_locked_cids(cid)\n", "                finally:\n                    pass\n"))),
    ("C07", "C07.d", "cid list rewritten before taking the advisory lock",
     rep_in(FHS, "_update_refs_file", "                    fcntl.flock(file_descriptor, fcntl.LOCK_EX)\n                    new_pid_lines", "                    new_pid_lines")),
    ("C07", "C07.e", "cid claim waits on another list",
     rep_in(FHS, "_synchronize_object_locked_cids", "while cid in self.object_locked_cids_th:", "while cid in self.object_locked_pids_th:")),
    ("C07", "C07.e", "pid claim rejects instead of waiting (no wait loop)",
     rep_in(FHS, "_synchronize_object_locked_pids", "                while pid in self.object_locked_pids_th:\n                    self.fhs_logger.debug(f\"Pid ({pid}) is locked. Waiting.\")\n                    self.object_pid_condition_th.wait()\n",
            "                if pid in self.object_locked_pids_th:\n                    raise StoreObjectForPidAlreadyInProgress(pid)\n")),
    # ---- C08
    ("C08", "C08.b", "cid claim of _delete_object_only never released",
     rep_in(FHS, "_delete_object_only", "        finally:\n            self._release_object_locked_cids(cid)\n", "        finally:\n            pass\n")),
    ("C08", "C08.b", "pid released only on the success path of store_object",
     rep_in(FHS, "store_object", "                finally:\n                    # Release pid\n                    self._release_object_locked_pids(pid)\n", "                    self._release_object_locked_pids(pid)\n                finally:\n                    pass\n")),
    ("C08", "C08.f", "release without notify",
     rep_in(FHS, "_release_object_locked_pids", "                self.object_locked_pids_th.remove(pid)\n                self.object_pid_condition_th.notify()\n", "                self.object_locked_pids_th.remove(pid)\n")),
    ("C08", "C08.e", "wait without re-check",
     rep_in(FHS, "_synchronize_referenced_locked_pids", "while pid in self.reference_locked_pids_th:", "if pid in self.reference_locked_pids_th:")),
    ("C08", "C08.a", "release notifies another condition",
     rep_in(FHS, "_release_object_locked_cids", "self.object_cid_condition_th.notify()", "self.object_pid_condition_th.notify()")),
    ("C08", "C08.c", "cid claimed before the reference pid in tagging (order inversion with delete_object)",
     rep_in(FHS, "_store_hashstore_refs_files", "            self._synchronize_referenced_locked_pids(pid)\n            self._synchronize_object_locked_cids(cid)\n", "            self._synchronize_object_locked_cids(cid)\n            self._synchronize_referenced_locked_pids(pid)\n")),
    ("C08", "C08.d", "file operation under the condition's mutex",
     rep_in(FHS, "_release_object_locked_cids", "            with self.object_cid_condition_th:\n                self.object_locked_cids_th.remove(cid)\n", "            with self.object_cid_condition_th:\n                os.listdir(self.root)\n                self.object_locked_cids_th.remove(cid)\n")),
    ("C08", None, "twin: notify_all instead of notify", rep_in(FHS, "_release_object_locked_cids", "self.object_cid_condition_th.notify()", "self.object_cid_condition_th.notify_all()")),
    # ---- C09
    ("C09", "C09.a", "pid reference written in place",
     rep_in(FHS, "_store_hashstore_refs_files", "                shutil.move(pid_tmp_file_path, pid_refs_path)\n                shutil.move(cid_tmp_file_path, cid_refs_path)\n",
            "                with open(pid_refs_path, \"w\", encoding=\"utf8\") as fh:\n                    fh.write(cid)\n                shutil.move(cid_tmp_file_path, cid_refs_path)\n")),
    ("C09", "C09.b", "metadata staged in the objects tmp directory",
     rep_in(FHS, "_mktmpmetadata", 'tmp_root_path = self._get_store_path("metadata") / "tmp"', 'tmp_root_path = self._get_store_path("objects") / "tmp"')),
    ("C09", "C09.c", "object published while the temp handle is still open",
     rep_in(FHS, "_mktmpmetadata", "        with tmp as tmp_file:\n            for data in stream:\n                tmp_file.write(self._cast_to_bytes(data))\n", "        tmp_file = tmp\n        for data in stream:\n            tmp_file.write(self._cast_to_bytes(data))\n")),
    ("C09", "C09.a", "metadata document truncated in place on update",
     rep_in(FHS, "_put_metadata", "                shutil.move(metadata_tmp, full_path)\n", "                open(full_path, \"wb\").close()\n                shutil.move(metadata_tmp, full_path)\n")),
    # ---- C10
    ("C10", "C10.a", "cid list published before the pid reference",
     rep_in(FHS, "_store_hashstore_refs_files", "                shutil.move(pid_tmp_file_path, pid_refs_path)\n                shutil.move(cid_tmp_file_path, cid_refs_path)\n", "                shutil.move(cid_tmp_file_path, cid_refs_path)\n                shutil.move(pid_tmp_file_path, pid_refs_path)\n")),
    ("C10", "C10.b", "delete_object loses its clean-up branch for PidNotFoundInCidRefsFile",
     rep_in(FHS, "delete_object", "            except PidNotFoundInCidRefsFile:", "            except CidRefsContentError:")),
    ("C10", "C10.c", "orphan clean-up forgets the metadata",
     rep_in(FHS, "delete_object", "                # Remove metadata files if they exist\n                self.delete_metadata(pid)\n                # Remove all files confirmed for deletion\n                self._delete_marked_files(objects_to_delete)\n                return\n            except RefsFileExistsButCidObjMissing:",
            "                # Remove all files confirmed for deletion\n                self._delete_marked_files(objects_to_delete)\n                return\n            except RefsFileExistsButCidObjMissing:")),
    ("C10", "C10.e", "pid appended to the cid list unconditionally (both membership guards dropped)",
     chain(rep_in(FHS, "_update_refs_file", "                if not pid_found:\n                    with open(refs_file_path, \"a\"", "                if True:\n                    with open(refs_file_path, \"a\""),
           rep_in(FHS, "_store_hashstore_refs_files", "                    if not self._is_string_in_refs_file(pid, cid_refs_path):\n", "                    if True:\n"))),
    ("C10", None, "twin: only the callee's membership guard dropped (the caller still guards)",
     rep_in(FHS, "_update_refs_file", "                if not pid_found:\n                    with open(refs_file_path, \"a\"", "                if True:\n                    with open(refs_file_path, \"a\"")),
    ("C10", "C10.a", "store_object tags before storing",
     rep_in(FHS, "store_object", "                    cid = object_metadata.cid\n                    self.tag_object(pid, cid)\n", "                    cid = object_metadata.cid\n")) if False else
    ("C10", "C10.a", "object removed before its cid list on delete",
     rep_in(FHS, "delete_object", "                        objects_to_delete.append(\n                            self._rename_path_for_deletion(cid_ref_abs_path)\n                        )\n                        obj_real_path = object_info_dict.get(\"cid_object_path\")\n                        objects_to_delete.append(\n                            self._rename_path_for_deletion(obj_real_path)\n                        )\n",
            "                        obj_real_path = object_info_dict.get(\"cid_object_path\")\n                        objects_to_delete.append(\n                            self._rename_path_for_deletion(obj_real_path)\n                        )\n                        objects_to_delete.append(\n                            self._rename_path_for_deletion(cid_ref_abs_path)\n                        )\n")),
    # ---- C11
    ("C11", "C11.a", "retrieve_metadata hashes format+pid",
     rep_in(FHS, "retrieve_metadata", "self._computehash(pid + checked_format_id)", "self._computehash(checked_format_id + pid)")),
    ("C11", "C11.a", "documents stored without the per-pid directory",
     rep_in(FHS, "_put_metadata", 'full_path = self._get_store_path("metadata") / rel_path / metadata_document_name', 'full_path = self._get_store_path("metadata") / metadata_document_name')),
    ("C11", "C11.b", "omitted format no longer means the default namespace on retrieve",
     rep_in(FHS, "retrieve_metadata", "metadata_document_name = self._computehash(pid + self.sysmeta_ns)", 'metadata_document_name = self._computehash(pid + "sysmeta")')),
    ("C11", "C11.d", "delete_object removes only the default document",
     rep_in(FHS, "delete_object", "                    # Remove metadata files if they exist\n                    self.delete_metadata(pid)\n", "                    # Remove metadata files if they exist\n                    self.delete_metadata(pid, self.sysmeta_ns)\n")),
    ("C11", "C11.e", "deleting an absent document raises",
     rep_in(FHS, "_delete", "                except FileNotFoundError:\n                    # Swallow file not found exceptions for metadata\n                    realpath = None\n", "                except PermissionError:\n                    realpath = None\n")),
    ("C11", None, "twin: f-string concatenation of pid and format", rep_in(FHS, "store_metadata", "self._computehash(pid + checked_format_id)", 'self._computehash(f"{pid}{checked_format_id}")')),
    # ---- C12
    ("C12", "C12.a", "single-document delete waits on the pid again",
     rep_in(FHS, "delete_metadata", "                    while pid_doc in self.metadata_locked_docs_th:\n                        self.fhs_logger.debug(sync_wait_msg)\n                        self.metadata_condition_th.wait()\n                    self.fhs_logger.debug(sync_begin_debug_msg)\n                    self.metadata_locked_docs_th.append(pid_doc)\n            try:\n                full_path",
            "                    while pid in self.metadata_locked_docs_th:\n                        self.fhs_logger.debug(sync_wait_msg)\n                        self.metadata_condition_th.wait()\n                    self.fhs_logger.debug(sync_begin_debug_msg)\n                    self.metadata_locked_docs_th.append(pid_doc)\n            try:\n                full_path")),
    ("C12", "C12.b", "delete-all renames listed documents without re-checking them",
     rep_in(FHS, "delete_metadata", "                        if os.path.isfile(path):\n                            objects_to_delete.append(\n                                self._rename_path_for_deletion(path)\n                            )\n", "                        objects_to_delete.append(self._rename_path_for_deletion(path))\n")),
    ("C12", "C12.c", "store_metadata publishes outside the document claim",
     rep_in(FHS, "store_metadata", "        try:\n            metadata_cid = self._put_metadata(metadata, pid, pid_doc)\n", "        metadata_cid = self._put_metadata(metadata, pid, pid_doc)\n        try:\n")) if False else
    ("C12", "C12.c", "delete-all claims the pid, not the document",
     rep_in(FHS, "delete_metadata", "                            self.metadata_locked_docs_th.append(pid_doc)\n                    try:\n                        # Mark", "                            self.metadata_locked_docs_th.append(pid)\n                    try:\n                        # Mark")),
    # ---- C13
    ("C13", "C13.a", "cid-list update swallows I/O errors",
     rep_in(FHS, "_update_refs_file", "            self.fhs_logger.error(err_msg)\n            raise err\n", "            self.fhs_logger.error(err_msg)\n")),
    ("C13", "C13.c", "tagging error re-raised without roll-back",
     rep_in(FHS, "_store_hashstore_refs_files", "                self._untag_object(pid, cid)\n                raise ue\n", "                raise ue\n")),
    ("C13", "C13.b", "delete_object uses the error-swallowing roll-back helper",
     rep_in(FHS, "delete_object", "                    objects_to_delete.append(\n                        self._rename_path_for_deletion(pid_ref_abs_path)\n                    )\n                    # Remove pid from cid reference file\n",
            "                    self._mark_pid_refs_file_for_deletion(\n                        pid, objects_to_delete, pid_ref_abs_path\n                    )\n                    # Remove pid from cid reference file\n")),
    ("C13", "C13.c", "failed metadata move keeps the temp file and reports success",
     rep_in(FHS, "_put_metadata", "                    self._delete(\"metadata\", metadata_tmp)\n                raise\n", "                    self._delete(\"metadata\", metadata_tmp)\n                return full_path\n")),
    # ---- C14
    ("C14", "C14.a", "metadata namespace no longer pinned",
     rep_in(FHS, "_verify_hashstore_properties", 'if key != "store_path":', 'if key != "store_path" and key != "store_metadata_namespace":')),
    ("C14", "C14.b", "constructor writes before comparing with the stored configuration",
     rep_in(FHS, "__init__", "            self._verify_hashstore_properties(properties, prop_store_path)\n", "")),
    ("C14", "C14.c", "configuration rewritten on every open (both absence tests dropped)",
     chain(rep_in(FHS, "_write_properties", "        if os.path.isfile(self.hashstore_configuration_yaml):\n            err_msg = \"Configuration file 'hashstore.yaml' already exists.\"\n            logging.error(err_msg)\n            raise FileExistsError(err_msg)\n", ""),
           rep_in(FHS, "__init__", "            if not os.path.isfile(self.hashstore_configuration_yaml):\n", "            if True:\n"))),
    ("C14", None, "twin: only the inner absence test dropped (the call site still guards)",
     rep_in(FHS, "_write_properties", "        if os.path.isfile(self.hashstore_configuration_yaml):\n            err_msg = \"Configuration file 'hashstore.yaml' already exists.\"\n            logging.error(err_msg)\n            raise FileExistsError(err_msg)\n", "")),
    ("C14", "C14.d", "refs directory not probed when the configuration is missing",
     rep_in(FHS, "_verify_hashstore_properties", 'subfolders = ["objects", "metadata", "refs"]', 'subfolders = ["objects", "metadata"]')),
    ("C14", "C14.e", "an algorithm accepted at creation cannot be translated on open",
     rep_in(FHS, "_write_properties", '["MD5", "SHA-1", "SHA-256", "SHA-384", "SHA-512"]', '["MD5", "SHA-1", "SHA-224", "SHA-256", "SHA-384", "SHA-512"]')),
    # ---- C15
    ("C15", "C15.b", "shard token upper bound off by one",
     rep_in(FHS, "_shard", "self.width * (i + 1)", "self.width * i + 1")),
    ("C15", "C15.b", "remainder starts one token early",
     rep_in(FHS, "_shard", "checksum[self.depth * self.width :]", "checksum[(self.depth - 1) * self.width :]")),
    ("C15", "C15.a", "pid reference sharded from the raw pid",
     rep_in(FHS, "_get_hashstore_pid_refs_path", "hash_id = self._computehash(pid, self.algorithm)", "hash_id = pid")),
    ("C15", "C15.a", "pid reference hashed with a fixed algorithm",
     rep_in(FHS, "_get_hashstore_pid_refs_path", "hash_id = self._computehash(pid, self.algorithm)", 'hash_id = self._computehash(pid, "sha1")')),
    ("C15", "C15.c", "cid list line written without newline",
     rep_in(FHS, "_update_refs_file", 'ref_file.write(ref_id + "\\n")', "ref_file.write(ref_id)")),
    ("C15", "C15.d", "yaml key renamed",
     rep_in(FHS, "_build_hashstore_yaml_string", '"store_metadata_namespace": store_metadata_namespace,', '"store_namespace": store_metadata_namespace,')),
    ("C15", None, "twin: commuted product in the slice bound", rep_in(FHS, "_shard", "self.width * (i + 1)", "(i + 1) * self.width")),
    ("C15", None, "twin: reformat the module (ast round trip)", unparse_roundtrip(FHS)),
    # ---- C16
    ("C16", "C16.a", "constructor guard compares the bool with a string again",
     rep_in(FHS, "__init__", "            if self.use_multiprocessing:\n", '            if self.use_multiprocessing == "True":\n')),
    ("C16", "C16.d", "per-process claim list in multiprocessing mode",
     rep_in(FHS, "__init__", "                self.object_locked_cids_mp = multiprocessing.Manager().list()", "                self.object_locked_cids_mp = []")),
    ("C16", "C16.c", "mp branch of a release forgets to notify",
     rep_in(FHS, "_release_object_locked_cids", "                self.object_locked_cids_mp.remove(cid)\n                self.object_cid_condition_mp.notify()\n", "                self.object_locked_cids_mp.remove(cid)\n")),
    ("C16", "C16.b", "mp branch uses a primitive the constructor never creates",
     rep_in(FHS, "_check_object_locked_cids", "if cid not in self.object_locked_cids_mp:", "if cid not in self.reference_locked_cids_mp:")),
    ("C16", "C16.e", "mode read from another variable",
     rep_in(FHS, "__init__", 'os.getenv("USE_MULTIPROCESSING", "False") == "True"', 'os.getenv("HASHSTORE_MULTIPROCESSING", "False") == "True"')),
    # ---- C17
    ("C17", "C17.b", "expected size no longer validated",
     rep_in(FHS, "store_object", "            self._check_integer(expected_object_size)\n", "")),
    ("C17", "C17.a", "tag_object validates the cid after tagging",
     rep_in(FHS, "tag_object", '        self._check_string(cid, "cid")\n\n        try:\n            self._store_hashstore_refs_files(pid, cid)\n', '        try:\n            self._store_hashstore_refs_files(pid, cid)\n            self._check_string(cid, "cid")\n')),
    ("C17", "C17.c", "_check_string accepts embedded whitespace",
     rep_in(FHS, "_check_string", ' or any(ch.isspace() for ch in string)', "")),
    ("C17", "C17.d", "retrieve_object touches the store",
     rep_in(FHS, "retrieve_object", '        entity = "objects"\n', '        entity = "objects"\n        self._create_path(self.objects / "tmp")\n')),
    ("C17", "C17.e", "delete_object renames before looking the pid up",
     rep_in(FHS, "delete_object", "            try:\n                object_info_dict = self._find_object(pid)\n", "            try:\n                objects_to_delete.append(self._rename_path_for_deletion(self._get_hashstore_pid_refs_path(pid)))\n                object_info_dict = self._find_object(pid)\n")),
    # ---- C18
    ("C18", "C18.b", "substring match in the cid list",
     rep_in(FHS, "_is_string_in_refs_file", "if ref_id == value:", "if ref_id in value:")),
    ("C18", "C18.b", "prefix match when removing from the cid list",
     rep_in(FHS, "_update_refs_file", "if cid_pid_line.strip() != ref_id", "if not cid_pid_line.startswith(ref_id)")),
    ("C18", "C18.a", "metadata directory named after the raw pid",
     rep_in(FHS, "_put_metadata", "metadata_directory = self._computehash(pid)", "metadata_directory = pid")),
    ("C18", "C18.c", "tag_object no longer checks the cid it writes as a line target",
     rep_in(FHS, "tag_object", '        self._check_string(pid, "pid")\n', "")),
    ("C18", "C18.d", "temp reference files created outside the store root",
     rep_in(FHS, "_store_hashstore_refs_files", 'tmp_root_path = self._get_store_path("refs") / "tmp"', 'tmp_root_path = Path("/tmp")')),
    # ---- C20
    ("C20", "C20.a", "client passes -obj_size as a string again",
     rep_in(CLI, "main", "    if size is not None:\n        size = int(size)\n", "")),
    ("C20", "C20.b", "checksum and its algorithm transposed",
     rep_in(CLI, "main", "pid, path, algorithm, checksum, checksum_algorithm, size", "pid, path, algorithm, checksum_algorithm, checksum, size")),
    ("C20", "C20.d", "default namespace substituted before delete_metadata",
     rep_in(CLI, "main", '        formatid = getattr(args, "object_formatid")\n        delete_status', "        delete_status")),
    ("C20", "C20.c", "-deleteobject dispatches to delete_metadata",
     rep_in(CLI, "main", "delete_status = hashstore_c.hashstore.delete_object(pid)", "delete_status = hashstore_c.hashstore.delete_metadata(pid)")),
    ("C20", "C20.e", "-chs passes the depth as a string",
     rep_in(CLI, "main", '"store_depth": int(getattr(args, "depth")),', '"store_depth": getattr(args, "depth"),')),
    # ---- rules added after the seeded rounds
    ("C03", "C03.e", "errors while confirming an existing binding reach the roll-back",
     rep_in(FHS, "_store_hashstore_refs_files", "                        raise HashStoreRefsAlreadyExists(err_msg)\n                    except Exception as e:\n",
            "                        raise HashStoreRefsAlreadyExists(err_msg)\n                    except PidRefsContentError as e:\n")),
    ("C07", "C07.e", "cid claim waits without re-checking",
     rep_in(FHS, "_synchronize_object_locked_cids", "while cid in self.object_locked_cids_th:", "if cid in self.object_locked_cids_th:")),
    ("C10", "C10.f", "cid list truncated before it is rewritten",
     rep_in(FHS, "_update_refs_file", "                    ref_file.writelines(new_pid_lines)\n                    ref_file.truncate()\n", "                    ref_file.truncate()\n                    ref_file.writelines(new_pid_lines)\n")),
    ("C11", "C11.c", "store_metadata skips the move when a document already exists",
     rep_in(FHS, "_put_metadata", "                shutil.move(metadata_tmp, full_path)\n", "                if not os.path.isfile(full_path):\n                    shutil.move(metadata_tmp, full_path)\n                else:\n                    os.remove(metadata_tmp)\n")),
    ("C13", "C13.f", "post-publication verification moved out of the roll-back's reach",
     rep_in(FHS, "_store_hashstore_refs_files", "                self._untag_object(pid, cid)\n                raise ue\n\n        finally:", "                self._untag_object(pid, cid)\n                raise ue\n\n            else:\n                self._verify_hashstore_references(pid, cid)\n\n        finally:")),
    ("C14", "C14.f", "configuration served from a class-level cache",
     rep_in(FHS, "_load_properties", "        with open(hashstore_yaml_path, \"r\", encoding=\"utf-8\") as hs_yaml_file:\n            yaml_data = yaml.safe_load(hs_yaml_file)\n",
            "        yaml_data = getattr(FileHashStore, \"_cached_yaml\", None)\n        if yaml_data is None:\n            with open(hashstore_yaml_path, \"r\", encoding=\"utf-8\") as hs_yaml_file:\n                yaml_data = yaml.safe_load(hs_yaml_file)\n            FileHashStore._cached_yaml = yaml_data\n")),
    ("C15", "C15.c", "remove-rewrite drops the final newline",
     rep_in(FHS, "_update_refs_file", "ref_file.writelines(new_pid_lines)", "ref_file.write(\"\\n\".join(x.strip() for x in new_pid_lines))")),
    ("C17", "C17.a", "delete_if_invalid_object no longer rejects unsupported algorithms up front",
     rep_in(FHS, "delete_if_invalid_object", "checksum_algorithm_checked = self._clean_algorithm(checksum_algorithm)", "checksum_algorithm_checked = checksum_algorithm")),
    ("C20", "C20.f", "-chs skipped when the store already exists",
     rep_in(CLI, "main", "    if getattr(args, \"create_hashstore\"):\n", "    if getattr(args, \"create_hashstore\") and not os.path.exists(getattr(args, \"store_path\") + \"/hashstore.yaml\"):\n")),
    ("C06", "C06.a", "verdict through hmac.compare_digest",
     rep(FHS, "if hex_digest_stored != checksum.lower():", "if not __import__(\"hmac\").compare_digest(hex_digest_stored, checksum.lower()):")) if False else
    ("C06", "C06.b", "duplicate branch validates the size against itself",
     rep_in(FHS, "_move_and_get_checksums", "                    tmp_file_size,\n                    file_size_to_validate,\n                )\n            except NonMatchingObjSize as nmose:", "                    tmp_file_size,\n                    tmp_file_size,\n                )\n            except NonMatchingObjSize as nmose:")),
    ("C01", "C01.d", "stream not rewound before reading",
     rep_in(FHS, "__iter__", "        self._obj.seek(0)\n\n        while True:", "        while True:")),
    ("C01", "C01.d", "caller's offset not restored after iteration",
     rep_in(FHS, "__iter__", "        if self._pos is not None:\n            self._obj.seek(self._pos)\n", "")),
    ("C01", "C01.d", "_cast_to_bytes encodes with latin-1",
     rep_in(FHS, "_cast_to_bytes", 'text = bytes(text, "utf8")', 'text = bytes(text, "latin-1")')),
    ("C12", "C12.f", "delete-all removes the pid's metadata directory",
     rep_in(FHS, "delete_metadata", "                self._delete_marked_files(objects_to_delete)\n                info_string = (\"Successfully deleted all", "                self._delete_marked_files(objects_to_delete)\n                shutil.rmtree(metadata_rel_path)\n                info_string = (\"Successfully deleted all")),
    ("C13", "C13.g", "a permanent metadata path queued for the swallowing remover",
     rep_in(FHS, "delete_metadata", "                            objects_to_delete.append(\n                                self._rename_path_for_deletion(path)\n                            )\n", "                            objects_to_delete.append(str(path))\n")),
    ("C15", "C15.e", "_computehash hashes only a prefix",
     rep_in(FHS, "_computehash", "        for data in stream:\n            hash_obj.update(self._cast_to_bytes(data))\n", "        for data in stream[:4096]:\n            hash_obj.update(self._cast_to_bytes(data))\n")),
    ("C18", "C18.e", "_computehash looks at the file system",
     rep_in(FHS, "_computehash", "        for data in stream:\n", "        if isinstance(stream, str) and os.path.isfile(stream):\n            stream = open(stream, \"rb\")\n        for data in stream:\n")),
    ("C16", "C16.c", "conditional expression picks another list in mp mode",
     rep_in(FHS, "_check_object_locked_cids", "        if self.use_multiprocessing:\n            if cid not in self.object_locked_cids_mp:", "        probe = self.object_locked_pids_mp if self.use_multiprocessing else self.object_locked_cids_th\n        if self.use_multiprocessing:\n            if cid not in self.object_locked_cids_mp:")),
    ("C20", "C20.d", "option defaulted with `or`",
     rep_in(CLI, "main", '    formatid = getattr(args, "object_formatid")\n    if formatid is None:\n        formatid = default_formatid\n', '    formatid = getattr(args, "object_formatid") or default_formatid\n')),
    ("C02", "C02.e", "case-sensitive family test in _clean_algorithm",
     rep_in(FHS, "_clean_algorithm", "        if count > 3:", '        if algorithm_string.startswith("sha3"):')),
    ("C07", "C07.f", "release widened over the try-claim rejection",
     rep_in(FHS, "store_object", "            except Exception as err:\n                err_msg = (\n                    f\"Failed to store object for pid: {pid}. Reference files will not be \"", "            except Exception as err:\n                self._release_object_locked_pids(pid)\n                err_msg = (\n                    f\"Failed to store object for pid: {pid}. Reference files will not be \"")),
    ("C04", "C04.b", "reference list tested before the cid claim only",
     rep_in(FHS, "_delete_object_only", "            self._synchronize_object_locked_cids(cid)\n            if os.path.isfile(cid_refs_abs_path):", "            refs_exist = os.path.isfile(cid_refs_abs_path)\n            self._synchronize_object_locked_cids(cid)\n            if refs_exist:")),
    ("C03", "C03.f", "pid-reference test hoisted in front of the tagging claim",
     chain(rep_in(FHS, "_store_hashstore_refs_files", "        try:\n            self._synchronize_referenced_locked_pids(pid)\n", "        pid_bound = os.path.isfile(self._get_hashstore_pid_refs_path(pid))\n        try:\n            self._synchronize_referenced_locked_pids(pid)\n"),
           rep_in(FHS, "_store_hashstore_refs_files", "                if os.path.isfile(pid_refs_path) and os.path.isfile(cid_refs_path):", "                if pid_bound and os.path.isfile(cid_refs_path):"),
           rep_in(FHS, "_store_hashstore_refs_files", "                elif os.path.isfile(pid_refs_path) and not os.path.isfile(\n                    cid_refs_path\n                ):", "                elif pid_bound and not os.path.isfile(cid_refs_path):"),
           rep_in(FHS, "_store_hashstore_refs_files", "                elif not os.path.isfile(pid_refs_path) and os.path.isfile(\n                    cid_refs_path\n                ):", "                elif not pid_bound and os.path.isfile(cid_refs_path):"))),
    ("C08", None, "twin: cid claim of _delete_object_only held through an @contextmanager helper",
     replace_function(FHS, "_delete_object_only", CM_OK, "from contextlib import closing, contextmanager")),
    ("C07", None, "twin: cid claim of _delete_object_only held through an @contextmanager helper",
     replace_function(FHS, "_delete_object_only", CM_OK, "from contextlib import closing, contextmanager")),
    ("C04", None, "twin: cid claim of _delete_object_only held through an @contextmanager helper",
     replace_function(FHS, "_delete_object_only", CM_OK, "from contextlib import closing, contextmanager")),
    ("C08", "C08.b", "@contextmanager claim helper without try/finally (claim leaks when the body raises)",
     replace_function(FHS, "_delete_object_only", CM_BAD, "from contextlib import closing, contextmanager")),
    ("C07", "C07.g", "per-call value parked in the shared store object",
     rep_in(FHS, "_move_and_get_checksums", "        object_cid = hex_digests.get(self.algorithm)\n", "        object_cid = hex_digests.get(self.algorithm)\n        self.last_cid = object_cid\n")),
    ("C18", "C18.f", "pid -> cid memo kept in the shared store object",
     chain(rep_in(FHS, "__init__", "            self.root = Path(prop_store_path)\n", "            self.root = Path(prop_store_path)\n            self.seen_cids = {}\n"),
           rep_in(FHS, "_find_object", "        self._check_string(pid, \"pid\")\n", "        self._check_string(pid, \"pid\")\n        self.seen_cids.setdefault(pid, None)\n"))),
    ("C07", "C07.g", "list of stored pids appended to on the shared store object",
     chain(rep_in(FHS, "__init__", "            self.root = Path(prop_store_path)\n", "            self.root = Path(prop_store_path)\n            self.recent = []\n"),
           rep_in(FHS, "_move_and_get_checksums", "        object_cid = hex_digests.get(self.algorithm)\n", "        object_cid = hex_digests.get(self.algorithm)\n        self.recent.append(object_cid)\n"))),
    ("C11", "C11.g", "metadata path fall-back dropped: relative store path doubles the prefix",
     rep_in(FHS, "_get_hashstore_metadata_path", "            if os.path.isfile(metadata_relative_path):\n", "            if False:\n")),
    ("C20", "C20.d", "client default namespace hard-coded instead of read from the store configuration",
     rep_in(CLI, "main", '        default_formatid = yaml_data["store_metadata_namespace"]\n', '        default_formatid = "https://ns.dataone.org/service/types/v2.0#SystemMetadata"\n')),
    ("C01", "C01.b", "Stream opens the lexically normalised path instead of the path it was given",
     rep(FHS, '            obj = io.open(obj, "rb")\n', '            obj = io.open(os.path.normpath(obj), "rb")\n')),
    ("C09", "C09.e", "temp file created unbuffered: short writes go unnoticed",
     rep_in(FHS, "_mktmpfile", "        tmp = NamedTemporaryFile(dir=path, delete=False)\n", "        tmp = NamedTemporaryFile(dir=path, delete=False, buffering=0)\n")),
    ("C09", None, "twin: temp file created with an explicit buffer size",
     rep_in(FHS, "_mktmpfile", "        tmp = NamedTemporaryFile(dir=path, delete=False)\n", "        tmp = NamedTemporaryFile(dir=path, delete=False, buffering=65536)\n")),
    ("C07", "C07.h", "empty shard directory pruned after the unlink",
     rep_in(FHS, "_delete_marked_files", "                    os.remove(obj)\n", "                    os.remove(obj)\n                    os.rmdir(os.path.dirname(obj))\n")),
    ("C06", "C06.b", "verdict compares the size of the stream's backing file, not of the temp file written",
     rep_in(FHS, "_write_to_tmp_file_and_get_hex_digests", "            tmp_file_size = os.path.getsize(tmp.name)\n", "            tmp_file_size = os.path.getsize(stream._obj.name)\n")),
    ("C02", "C02.b", "_computehash hands the caller's spelling to hashlib",
     rep_in(FHS, "_computehash", "            check_algorithm = self._clean_algorithm(algorithm)\n            hash_obj = hashlib.new(check_algorithm)\n", "            self._clean_algorithm(algorithm)\n            hash_obj = hashlib.new(algorithm)\n")),
    ("C13", "C13.c", "failed metadata move: the temp file is removed only when it is NOT there",
     rep_in(FHS, "_put_metadata", "                if os.path.isfile(metadata_tmp):\n                    # Remove tmp metadata", "                if not os.path.isfile(metadata_tmp):\n                    # Remove tmp metadata")),
    ("C13", "C13.c", "failed object move: the temp file is left behind",
     rep_in(FHS, "_move_and_get_checksums", "                    self._delete(\"tmp\", tmp_file_name)\n                    err_msg = (\n                        f\"Object has not been stored for pid", "                    err_msg = (\n                        f\"Object has not been stored for pid")),
    ("C13", "C13.j", "store_metadata removes the previous document before the move into place",
     rep_in(FHS, "_put_metadata", "                shutil.move(metadata_tmp, full_path)\n", "                self._delete(\"metadata\", full_path)\n                shutil.move(metadata_tmp, full_path)\n")),
    ("C13", "C13.j", "store_metadata unlinks the previous document when present",
     rep_in(FHS, "_put_metadata", "                shutil.move(metadata_tmp, full_path)\n", "                if os.path.isfile(full_path):\n                    os.remove(full_path)\n                shutil.move(metadata_tmp, full_path)\n")),
    ("C15", "C15.h", "hashstore.yaml written from the properties as spelled by the caller",
     rep_in(FHS, "_write_properties", "            checked_properties[property_name]\n", "            properties[property_name]\n")),
    ("C15", None, "twin: depth and width coerced a second time at the writer call",
     rep_in(FHS, "_write_properties", "        hashstore_configuration_yaml = self._build_hashstore_yaml_string(\n            store_depth,\n            store_width,\n", "        hashstore_configuration_yaml = self._build_hashstore_yaml_string(\n            int(store_depth),\n            int(store_width),\n")),
    ("C07", "C07.d", "membership scan through the update handle before the flock (generator expression)",
     rep_in(FHS, "_update_refs_file", "                    fcntl.flock(file_descriptor, fcntl.LOCK_EX)\n                    new_pid_lines = [", "                    already_gone = not any(l.strip() == ref_id for l in ref_file)\n                    fcntl.flock(file_descriptor, fcntl.LOCK_EX)\n                    ref_file.seek(0)\n                    new_pid_lines = [")),
    ("C12", "C12.g", "delete_metadata moves marked documents back after a failed marking",
     rep_in(FHS, "delete_metadata", "                    finally:\n                        # Release pid\n", "                    except Exception:\n                        for marked_path in objects_to_delete:\n                            shutil.move(marked_path, marked_path[: -len(\"_delete\")])\n                        raise\n                    finally:\n                        # Release pid\n")),
    ("C10", "C10.b", "the pid look-up moved out of the try that owns delete_object's clean-up handlers",
     rep_in(FHS, "delete_object", "            try:\n                object_info_dict = self._find_object(pid)\n", "            object_info_dict = self._find_object(pid)\n            try:\n")),
    ("C05", "C05.h", "the pid look-up moved out of the try that owns delete_object's clean-up handlers",
     rep_in(FHS, "delete_object", "            try:\n                object_info_dict = self._find_object(pid)\n", "            object_info_dict = self._find_object(pid)\n            try:\n")),
    ("C10", None, "twin: delete_object's look-up goes through a local helper function called inside the try",
     chain(rep_in(FHS, "delete_object", "            try:\n                object_info_dict = self._find_object(pid)\n", "            try:\n                object_info_dict = self._lookup_for_delete(pid)\n"),
           rep(FHS, "    def _delete_object_only(self, cid: str) -> None:\n", "    def _lookup_for_delete(self, pid: str):\n        info = self._find_object(pid)\n        return info\n\n    def _delete_object_only(self, cid: str) -> None:\n"))),
    ("C07", "C07.e", "cid claim waits with a timed wait_for() and ignores its result",
     rep_in(FHS, "_synchronize_object_locked_cids", "                while cid in self.object_locked_cids_th:\n                    self.fhs_logger.debug(f\"Cid ({cid}) is locked. Waiting.\")\n                    self.object_cid_condition_th.wait()\n",
            "                self.object_cid_condition_th.wait_for(lambda: cid not in self.object_locked_cids_th, timeout=30)\n")),
    ("C07", None, "twin: cid claim waits with wait_for(lambda: cid not in list)",
     rep_in(FHS, "_synchronize_object_locked_cids", "                while cid in self.object_locked_cids_th:\n                    self.fhs_logger.debug(f\"Cid ({cid}) is locked. Waiting.\")\n                    self.object_cid_condition_th.wait()\n",
            "                self.object_cid_condition_th.wait_for(lambda: cid not in self.object_locked_cids_th)\n")),
    ("C08", "C08.b", "timed wait_for() on the cid claim gives up inside the try whose finally releases both tagging claims",
     rep_in(FHS, "_synchronize_object_locked_cids", "                while cid in self.object_locked_cids_th:\n                    self.fhs_logger.debug(f\"Cid ({cid}) is locked. Waiting.\")\n                    self.object_cid_condition_th.wait()\n",
            "                if not self.object_cid_condition_th.wait_for(lambda: cid not in self.object_locked_cids_th, 3600):\n                    raise TimeoutError(f\"Cid ({cid}) is locked.\")\n")),
    ("C08", "C08.j", "timed wait_for() on the object pid claim gives up with an error: in store_object the claim is taken inside the try whose finally releases it",
     rep_in(FHS, "_synchronize_object_locked_pids", "                while pid in self.object_locked_pids_th:\n                    self.fhs_logger.debug(f\"Pid ({pid}) is locked. Waiting.\")\n                    self.object_pid_condition_th.wait()\n",
            "                if not self.object_pid_condition_th.wait_for(lambda: pid not in self.object_locked_pids_th, 3600):\n                    raise TimeoutError(f\"Pid ({pid}) is locked.\")\n")),
    ("C08", None, "twin: a local bound under a condition and read later under the same condition (size message built up front)",
     chain(rep_in(FHS, "_verify_object_information", "        if file_size_to_validate is not None and file_size_to_validate > 0:\n            if file_size_to_validate != tmp_file_size:\n                err_msg = (\n",
                  "        if pid is not None:\n            pid_note = str(pid)\n        if file_size_to_validate is not None and file_size_to_validate > 0:\n            if file_size_to_validate != tmp_file_size:\n                err_msg = (\n"),
           rep_in(FHS, "_verify_object_information", "                    err_msg_for_pid = (\n                        f\"{err_msg} Tmp file deleted and file not stored for pid: {pid}\"\n                    )\n",
                  "                    err_msg_for_pid = (\n                        f\"{err_msg} Tmp file deleted and file not stored for pid: {pid}\"\n                    ) + pid_note\n"))),
    ("C08", "C08.g", "digest bound only inside the read loop: unbound for an empty object",
     rep_in(FHS, "_computehash", "        hex_digest = hash_obj.hexdigest()\n        return hex_digest\n", "            hex_digest = hash_obj.hexdigest()\n        return hex_digest\n")),
    ("C02", "C02.j", "digest bound only inside the read loop: unbound for an empty object",
     rep_in(FHS, "_computehash", "        hex_digest = hash_obj.hexdigest()\n        return hex_digest\n", "            hex_digest = hash_obj.hexdigest()\n        return hex_digest\n")),
    ("C15", "C15.c", "cid list cut at a character count after the rewrite",
     rep_in(FHS, "_update_refs_file", "                    ref_file.truncate()\n", "                    ref_file.truncate(sum(len(line) for line in new_pid_lines))\n")),
    ("C15", None, "twin: cid list cut at the position the text layer reports",
     rep_in(FHS, "_update_refs_file", "                    ref_file.truncate()\n", "                    ref_file.truncate(ref_file.tell())\n")),
    ("C12", "C12.i", "delete-all stops at the first document that vanished since the listing",
     rep_in(FHS, "delete_metadata", "                        if os.path.isfile(path):\n                            objects_to_delete.append(\n                                self._rename_path_for_deletion(path)\n                            )\n",
            "                        if not os.path.isfile(path):\n                            break\n                        objects_to_delete.append(self._rename_path_for_deletion(path))\n")),
    ("C12", None, "twin: delete-all skips a vanished document with `continue`",
     rep_in(FHS, "delete_metadata", "                        if os.path.isfile(path):\n                            objects_to_delete.append(\n                                self._rename_path_for_deletion(path)\n                            )\n",
            "                        if not os.path.isfile(path):\n                            continue\n                        objects_to_delete.append(self._rename_path_for_deletion(path))\n")),
    ("C13", "C13.f", "roll-back handler formats its message with % from run-time text before calling the roll-back",
     rep_in(FHS, "_store_hashstore_refs_files", "                err_msg = f\"Unexpected exception: {ue}, reverting tagging process (untag obj).\"\n",
            "                err_msg = (f\"Unexpected exception while tagging pid: {pid}, reverting \" \"tagging process. Details: %s\" % ue)\n")),
    ("C13", None, "twin: roll-back handler message names the pid and cid (f-string only)",
     rep_in(FHS, "_store_hashstore_refs_files", "                err_msg = f\"Unexpected exception: {ue}, reverting tagging process (untag obj).\"\n",
            "                err_msg = f\"Unexpected exception while tagging pid: {pid} with cid: {cid}: {ue}, reverting tagging process (untag obj).\"\n")),
    ("C14", "C14.h", "loader keeps only the keys present in hashstore.yaml and the verifier walks the loaded keys",
     chain(rep_in(FHS, "_load_properties", "            if key != \"store_path\":\n                hashstore_yaml_dict[key] = yaml_data[key]\n", "            if key != \"store_path\" and key in yaml_data:\n                hashstore_yaml_dict[key] = yaml_data[key]\n"),
           rep_in(FHS, "_verify_hashstore_properties", "            for key in self.property_required_keys:\n                # 'store_path' is required to init HashStore but not saved in `hashstore.yaml`\n                if key != \"store_path\":\n",
                  "            for key in self.property_required_keys:\n                # 'store_path' is required to init HashStore but not saved in `hashstore.yaml`\n                if key != \"store_path\" and key in hashstore_yaml_dict:\n"))),
    ("C14", None, "twin: loader tests for the key and raises KeyError itself",
     rep_in(FHS, "_load_properties", "            if key != \"store_path\":\n                hashstore_yaml_dict[key] = yaml_data[key]\n", "            if key != \"store_path\":\n                if key not in yaml_data:\n                    raise KeyError(key)\n                hashstore_yaml_dict[key] = yaml_data[key]\n")),
    ("C20", "C20.h", "argument files enabled in the client's parser",
     rep(CLI, "            epilog=epilog,\n", "            epilog=epilog,\n            fromfile_prefix_chars=\"@\",\n")),
    ("C20", None, "twin: parser keyword spelled out with its default value",
     rep(CLI, "            epilog=epilog,\n", "            epilog=epilog,\n            fromfile_prefix_chars=None,\n            allow_abbrev=True,\n")),
    ("C03", "C03.h", "roll-back renames the pid reference away before comparing the cids",
     rep_in(FHS, "_untag_object", "            self._validate_and_check_cid_lock(pid, cid, cid_to_check)\n\n            # Remove pid refs\n            pid_refs_path = self._get_hashstore_pid_refs_path(pid)\n            self._mark_pid_refs_file_for_deletion(\n                pid, untag_obj_delete_list, pid_refs_path\n            )\n",
            "            # Remove pid refs\n            pid_refs_path = self._get_hashstore_pid_refs_path(pid)\n            self._mark_pid_refs_file_for_deletion(\n                pid, untag_obj_delete_list, pid_refs_path\n            )\n            self._validate_and_check_cid_lock(pid, cid, cid_to_check)\n")),
    ("C14", "C14.b", "accepted-algorithm gate tests an upper-cased copy, the raw spelling is recorded",
     rep_in(FHS, "_write_properties", "        if store_algorithm in accepted_store_algorithms:\n", "        if store_algorithm.upper() in accepted_store_algorithms:\n")),
    ("C14", None, "twin: accepted-algorithm gate through a local copy of the value",
     rep_in(FHS, "_write_properties", "        if store_algorithm in accepted_store_algorithms:\n            checked_store_algorithm = store_algorithm\n",
            "        candidate_algorithm = store_algorithm\n        if candidate_algorithm in accepted_store_algorithms:\n            checked_store_algorithm = candidate_algorithm\n")),
    ("C06", "C06.j", "size validation guarded by the truth value of the measured size",
     rep_in(FHS, "_verify_object_information", "        if file_size_to_validate is not None and file_size_to_validate > 0:\n", "        if file_size_to_validate and tmp_file_size:\n")),
    ("C06", None, "twin: size validation guarded by the truth value of the EXPECTED size (never 0: sizes below 1 are rejected earlier)",
     rep_in(FHS, "_verify_object_information", "        if file_size_to_validate is not None and file_size_to_validate > 0:\n", "        if file_size_to_validate is not None and file_size_to_validate >= 1:\n")),
    ("C16", "C16.g", "fork hook empties the claim lists in every forked child",
     chain(rep_in(FHS, "__init__", "            self.fhs_logger.debug(\"Initialization success. Store root: %s\", self.root)\n",
                  "            os.register_at_fork(after_in_child=self._forget_inherited_claims)\n            self.fhs_logger.debug(\"Initialization success. Store root: %s\", self.root)\n"),
           rep(FHS, "    def _delete_object_only(self, cid: str) -> None:\n", "    def _forget_inherited_claims(self) -> None:\n        mode = \"mp\" if self.use_multiprocessing else \"th\"\n        for claims in (\"object_locked_pids\", \"object_locked_cids\", \"metadata_locked_docs\", \"reference_locked_pids\"):\n            del getattr(self, f\"{claims}_{mode}\")[:]\n\n    def _delete_object_only(self, cid: str) -> None:\n"))),
    ("C16", None, "twin: fork hook that only logs",
     chain(rep_in(FHS, "__init__", "            self.fhs_logger.debug(\"Initialization success. Store root: %s\", self.root)\n",
                  "            os.register_at_fork(after_in_child=self._note_fork)\n            self.fhs_logger.debug(\"Initialization success. Store root: %s\", self.root)\n"),
           rep(FHS, "    def _delete_object_only(self, cid: str) -> None:\n", "    def _note_fork(self) -> None:\n        self.fhs_logger.debug(\"forked: pid %s\", os.getpid())\n\n    def _delete_object_only(self, cid: str) -> None:\n"))),
    ("C02", "C02.k", "on-demand digest reads the stored object through a text-mode handle",
     rep_in(FHS, "_verify_object_information", "                    cid_stream = self._open(entity, object_cid)\n", "                    cid_stream = open(self._get_hashstore_data_object_path(object_cid))\n")),
    ("C02", None, "twin: on-demand digest reads the stored object through an explicit binary open",
     rep_in(FHS, "_verify_object_information", "                    cid_stream = self._open(entity, object_cid)\n", "                    cid_stream = open(self._get_hashstore_data_object_path(object_cid), \"rb\")\n")),
    ("C15", None, "twin: _computehash reads a handle in fixed-size blocks until the empty read",
     rep_in(FHS, "_computehash", "        for data in stream:\n            hash_obj.update(self._cast_to_bytes(data))\n",
            "        if hasattr(stream, \"read\"):\n            while data := stream.read(65536):\n                hash_obj.update(self._cast_to_bytes(data))\n        else:\n            for data in stream:\n                hash_obj.update(self._cast_to_bytes(data))\n")),
    ("C07", "C07.d", "cid list locked with a POSIX record lock (lockf) instead of flock",
     rep_in(FHS, "_update_refs_file", "                    fcntl.flock(file_descriptor, fcntl.LOCK_EX)\n                    new_pid_lines = [", "                    fcntl.lockf(file_descriptor, fcntl.LOCK_EX)\n                    new_pid_lines = [")),
    ("C20", "C20.b", "per-request format id read from the store-creation option's dest",
     rep_in(CLI, "main", '    formatid = getattr(args, "object_formatid")\n    if formatid is None:', '    formatid = getattr(args, "formatid")\n    if formatid is None:')),
    ("C14", "C14.b", "store directories created before the stored algorithm tables were read",
     chain(rep_in(FHS, "__init__", "            # Default algorithm list for FileHashStore based on config file written\n            self._set_default_algorithms()\n", ""),
           rep_in(FHS, "__init__", "                self._create_path(self.refs / \"cids\")\n", "                self._create_path(self.refs / \"cids\")\n            self._set_default_algorithms()\n"))),
    ("C06", "C06.h", "size mismatch on already-stored content re-raised as a checksum mismatch",
     rep_in(FHS, "_move_and_get_checksums", "                raise NonMatchingObjSize(err_msg) from nmose\n", "                raise NonMatchingChecksum(err_msg) from nmose\n")),
    ("C18", "C18.g", "metadata directory listed with glob over the unescaped store path",
     chain(rep_in(FHS, "_get_file_paths", "            files = os.listdir(directory)\n            file_paths = [\n                directory / file for file in files if os.path.isfile(directory / file)\n            ]\n",
                  "            file_paths = [\n                Path(file) for file in glob.glob(os.path.join(directory, \"*\")) if os.path.isfile(file)\n            ]\n"),
           rep(FHS, "import atexit\n", "import atexit\nimport glob\n"))),
    ("C18", None, "twin: metadata directory listed with glob over the escaped directory",
     chain(rep_in(FHS, "_get_file_paths", "            files = os.listdir(directory)\n            file_paths = [\n                directory / file for file in files if os.path.isfile(directory / file)\n            ]\n",
                  "            file_paths = [\n                Path(file) for file in glob.glob(os.path.join(glob.escape(directory), \"*\")) if os.path.isfile(file)\n            ]\n"),
           rep(FHS, "import atexit\n", "import atexit\nimport glob\n"))),
    ("C04", None, "twin: _delete_object_only through a higher-order claim helper and a nested function",
     chain(rep_in(FHS, "_delete_object_only", "        try:\n            cid_refs_abs_path = self._get_hashstore_cid_refs_path(cid)\n            # If the refs file still exists, do not delete the object\n            self._synchronize_object_locked_cids(cid)\n            if os.path.isfile(cid_refs_abs_path):\n                debug_msg = (\n                    f\"Cid reference file exists for: {cid}, skipping delete request.\"\n                )\n                self.fhs_logger.debug(debug_msg)\n\n            else:\n                self._delete(\"objects\", cid)\n                info_msg = f\"Deleted object only for cid: {cid}\"\n                self.fhs_logger.info(info_msg)\n\n        finally:\n            self._release_object_locked_cids(cid)\n", "        cid_refs_abs_path = self._get_hashstore_cid_refs_path(cid)\n\n        def delete_unless_referenced():\n            if os.path.isfile(cid_refs_abs_path):\n                self.fhs_logger.debug(f\"Cid reference file exists for: {cid}, skipping delete request.\")\n            else:\n                self._delete(\"objects\", cid)\n                self.fhs_logger.info(f\"Deleted object only for cid: {cid}\")\n\n        self._with_claim(self._synchronize_object_locked_cids, self._release_object_locked_cids, cid, delete_unless_referenced)\n"),
           rep(FHS, "    def _delete_object_only(self, cid: str) -> None:\n", "    def _with_claim(self, synchronize, release, identifier, action):\n        synchronize(identifier)\n        try:\n            return action()\n        finally:\n            release(identifier)\n\n    def _delete_object_only(self, cid: str) -> None:\n"))),
    ("C07", None, "twin: _delete_object_only through a higher-order claim helper and a lambda",
     chain(rep_in(FHS, "_delete_object_only", "        try:\n            cid_refs_abs_path = self._get_hashstore_cid_refs_path(cid)\n            # If the refs file still exists, do not delete the object\n            self._synchronize_object_locked_cids(cid)\n            if os.path.isfile(cid_refs_abs_path):\n                debug_msg = (\n                    f\"Cid reference file exists for: {cid}, skipping delete request.\"\n                )\n                self.fhs_logger.debug(debug_msg)\n\n            else:\n                self._delete(\"objects\", cid)\n                info_msg = f\"Deleted object only for cid: {cid}\"\n                self.fhs_logger.info(info_msg)\n\n        finally:\n            self._release_object_locked_cids(cid)\n", "        cid_refs_abs_path = self._get_hashstore_cid_refs_path(cid)\n        self._with_claim(\n            self._synchronize_object_locked_cids,\n            self._release_object_locked_cids,\n            cid,\n            lambda: None if os.path.isfile(cid_refs_abs_path) else self._delete(\"objects\", cid),\n        )\n"),
           rep(FHS, "    def _delete_object_only(self, cid: str) -> None:\n", "    def _with_claim(self, synchronize, release, identifier, action):\n        synchronize(identifier)\n        try:\n            return action()\n        finally:\n            release(identifier)\n\n    def _delete_object_only(self, cid: str) -> None:\n"))),
    ("C04", "C04.b", "higher-order claim helper: the reference test is made before the claim, only the removal runs inside it",
     chain(rep_in(FHS, "_delete_object_only", "        try:\n            cid_refs_abs_path = self._get_hashstore_cid_refs_path(cid)\n            # If the refs file still exists, do not delete the object\n            self._synchronize_object_locked_cids(cid)\n            if os.path.isfile(cid_refs_abs_path):\n                debug_msg = (\n                    f\"Cid reference file exists for: {cid}, skipping delete request.\"\n                )\n                self.fhs_logger.debug(debug_msg)\n\n            else:\n                self._delete(\"objects\", cid)\n                info_msg = f\"Deleted object only for cid: {cid}\"\n                self.fhs_logger.info(info_msg)\n\n        finally:\n            self._release_object_locked_cids(cid)\n", "        cid_refs_abs_path = self._get_hashstore_cid_refs_path(cid)\n        referenced = os.path.isfile(cid_refs_abs_path)\n        self._with_claim(\n            self._synchronize_object_locked_cids,\n            self._release_object_locked_cids,\n            cid,\n            lambda: None if referenced else self._delete(\"objects\", cid),\n        )\n"),
           rep(FHS, "    def _delete_object_only(self, cid: str) -> None:\n", "    def _with_claim(self, synchronize, release, identifier, action):\n        synchronize(identifier)\n        try:\n            return action()\n        finally:\n            release(identifier)\n\n    def _delete_object_only(self, cid: str) -> None:\n"))),
    ("C13", "C13.f", "roll-back gated by a 'files in place' flag that is set only after the second move",
     chain(rep_in(FHS, "_store_hashstore_refs_files", "            try:\n                # Prepare files and paths\n", "            refs_files_in_place = False\n            try:\n                # Prepare files and paths\n"),
           rep_in(FHS, "_store_hashstore_refs_files", "                shutil.move(cid_tmp_file_path, cid_refs_path)\n", "                shutil.move(cid_tmp_file_path, cid_refs_path)\n                refs_files_in_place = True\n"),
           rep_in(FHS, "_store_hashstore_refs_files", "                self._untag_object(pid, cid)\n                raise ue\n", "                if refs_files_in_place:\n                    self._untag_object(pid, cid)\n                raise ue\n"))),
    ("C13", None, "twin: roll-back gated by a flag that is set right after the pid reference is moved (both branches)",
     chain(rep_in(FHS, "_store_hashstore_refs_files", "            try:\n                # Prepare files and paths\n", "            refs_files_in_place = False\n            try:\n                # Prepare files and paths\n"),
           rep_in(FHS, "_store_hashstore_refs_files", "shutil.move(pid_tmp_file_path, pid_refs_path)\n", "shutil.move(pid_tmp_file_path, pid_refs_path)\n                    refs_files_in_place = True\n", count=1) if False else
           (lambda src: (lambda s0: None if s0.count("                    shutil.move(pid_tmp_file_path, pid_refs_path)\n") != 1 or s0.count("                shutil.move(pid_tmp_file_path, pid_refs_path)\n                shutil.move(cid_tmp_file_path") != 1 else
                         {**src, FHS: s0.replace("                    shutil.move(pid_tmp_file_path, pid_refs_path)\n", "                    shutil.move(pid_tmp_file_path, pid_refs_path)\n                    refs_files_in_place = True\n")
                                       .replace("                shutil.move(pid_tmp_file_path, pid_refs_path)\n                shutil.move(cid_tmp_file_path", "                shutil.move(pid_tmp_file_path, pid_refs_path)\n                refs_files_in_place = True\n                shutil.move(cid_tmp_file_path")})(src[FHS])),
           rep_in(FHS, "_store_hashstore_refs_files", "                self._untag_object(pid, cid)\n                raise ue\n", "                if refs_files_in_place:\n                    self._untag_object(pid, cid)\n                raise ue\n"))),
    ("C12", "C12.j", "delete-all claims the document under a path object (relative_to) instead of its name",
     rep_in(FHS, "delete_metadata", "                    pid_doc = os.path.basename(path)\n", "                    pid_doc = path.relative_to(metadata_rel_path)\n")),
    ("C15", "C15.c", "cid list rewritten from a size-limited readlines()",
     rep_in(FHS, "_update_refs_file", "                        for cid_pid_line in ref_file.readlines()\n", "                        for cid_pid_line in ref_file.readlines(io.DEFAULT_BUFFER_SIZE)\n")),
    ("C15", None, "twin: readlines(-1) reads all lines",
     rep_in(FHS, "_update_refs_file", "                        for cid_pid_line in ref_file.readlines()\n", "                        for cid_pid_line in ref_file.readlines(-1)\n")),
    ("C18", "C18.h", "membership helper reads the reference file with the utf-8-sig codec",
     rep_in(FHS, "_is_string_in_refs_file", '        with open(refs_file_path, "r", encoding="utf8") as ref_file:\n', '        with open(refs_file_path, "r", encoding="utf-8-sig") as ref_file:\n')),
    ("C18", None, "twin: membership helper spells the codec 'utf-8'",
     rep_in(FHS, "_is_string_in_refs_file", '        with open(refs_file_path, "r", encoding="utf8") as ref_file:\n', '        with open(refs_file_path, "r", encoding="UTF-8") as ref_file:\n')),
    ("C20", "C20.i", "client creates its log file with an exclusive create behind the existence test",
     rep_in(CLI, "main", '        open(python_log_file_path, "w", encoding="utf-8").close()\n', '        open(python_log_file_path, "x", encoding="utf-8").close()\n')),
    ("C08", "C08.h", "delete_object's missing-object branch holds a shared flock on the cid list while the update asks for the exclusive one",
     rep_in(FHS, "delete_object", "                    if self._is_string_in_refs_file(pid, cid_ref_abs_path):\n                        self._update_refs_file(cid_ref_abs_path, pid, \"remove\")\n",
            "                    with open(cid_ref_abs_path, \"r\", encoding=\"utf8\") as cid_ref_file:\n                        fcntl.flock(cid_ref_file.fileno(), fcntl.LOCK_SH)\n                        listed = any(line.strip() == pid for line in cid_ref_file)\n                        if listed:\n                            self._update_refs_file(cid_ref_abs_path, pid, \"remove\")\n                    if False:\n                        pass\n")),
    ("C01", "C01.e", "temp file length reserved with posix_fallocate from the announced size",
     rep_in(FHS, "_mktmpfile", "        tmp = NamedTemporaryFile(dir=path, delete=False)\n", "        tmp = NamedTemporaryFile(dir=path, delete=False)\n        os.posix_fallocate(tmp.fileno(), 0, 4096)\n")),
    ("C04", "C04.j", "store_object tags after it released its pid claim",
     rep_in(FHS, "store_object", '                    self.fhs_logger.debug("Attempting to tag object for pid: %s", pid)\n                    cid = object_metadata.cid\n                    self.tag_object(pid, cid)\n                    self.fhs_logger.info("Successfully stored object for pid: %s", pid)\n                finally:\n                    # Release pid\n                    self._release_object_locked_pids(pid)\n', '                finally:\n                    # Release pid\n                    self._release_object_locked_pids(pid)\n                self.fhs_logger.debug("Attempting to tag object for pid: %s", pid)\n                cid = object_metadata.cid\n                self.tag_object(pid, cid)\n                self.fhs_logger.info("Successfully stored object for pid: %s", pid)\n')),
    ("C07", "C07.k", "store_object tags after it released its pid claim",
     rep_in(FHS, "store_object", '                    self.fhs_logger.debug("Attempting to tag object for pid: %s", pid)\n                    cid = object_metadata.cid\n                    self.tag_object(pid, cid)\n                    self.fhs_logger.info("Successfully stored object for pid: %s", pid)\n                finally:\n                    # Release pid\n                    self._release_object_locked_pids(pid)\n', '                finally:\n                    # Release pid\n                    self._release_object_locked_pids(pid)\n                self.fhs_logger.debug("Attempting to tag object for pid: %s", pid)\n                cid = object_metadata.cid\n                self.tag_object(pid, cid)\n                self.fhs_logger.info("Successfully stored object for pid: %s", pid)\n')),
    ("C04", None, "twin: the tagging wrapped in its own try/finally inside the pid claim",
     rep_in(FHS, "store_object", '                    self.fhs_logger.debug("Attempting to tag object for pid: %s", pid)\n                    cid = object_metadata.cid\n                    self.tag_object(pid, cid)\n                    self.fhs_logger.info("Successfully stored object for pid: %s", pid)\n                finally:\n                    # Release pid\n                    self._release_object_locked_pids(pid)\n', '                    self.fhs_logger.debug("Attempting to tag object for pid: %s", pid)\n                    cid = object_metadata.cid\n                    try:\n                        self.tag_object(pid, cid)\n                    finally:\n                        self.fhs_logger.debug("Tagging finished for pid: %s", pid)\n                    self.fhs_logger.info("Successfully stored object for pid: %s", pid)\n                finally:\n                    # Release pid\n                    self._release_object_locked_pids(pid)\n')),
    ("C07", None, "twin: the tagging wrapped in its own try/finally inside the pid claim",
     rep_in(FHS, "store_object", '                    self.fhs_logger.debug("Attempting to tag object for pid: %s", pid)\n                    cid = object_metadata.cid\n                    self.tag_object(pid, cid)\n                    self.fhs_logger.info("Successfully stored object for pid: %s", pid)\n                finally:\n                    # Release pid\n                    self._release_object_locked_pids(pid)\n', '                    self.fhs_logger.debug("Attempting to tag object for pid: %s", pid)\n                    cid = object_metadata.cid\n                    try:\n                        self.tag_object(pid, cid)\n                    finally:\n                        self.fhs_logger.debug("Tagging finished for pid: %s", pid)\n                    self.fhs_logger.info("Successfully stored object for pid: %s", pid)\n                finally:\n                    # Release pid\n                    self._release_object_locked_pids(pid)\n')),
    ("C03", "C03.i", "mode switch compares the lower-cased variable with 'True'",
     rep_in(FHS, "__init__", '                os.getenv("USE_MULTIPROCESSING", "False") == "True"\n', '                os.getenv("USE_MULTIPROCESSING", "False").lower() == "True"\n')),
    ("C16", "C16.e", "mode switch compares the lower-cased variable with 'True'",
     rep_in(FHS, "__init__", '                os.getenv("USE_MULTIPROCESSING", "False") == "True"\n', '                os.getenv("USE_MULTIPROCESSING", "False").lower() == "True"\n')),
    ("C16", None, "twin: mode switch written as membership in a one-element tuple",
     rep_in(FHS, "__init__", '                os.getenv("USE_MULTIPROCESSING", "False") == "True"\n', '                os.getenv("USE_MULTIPROCESSING", "False") in ("True",)\n')),
    ("C08", "C08.i", "Stream opens whatever path it is given (a FIFO blocks the open)",
     rep_in(FHS, "Stream.__init__", "        elif os.path.isfile(obj):\n", "        elif isinstance(obj, (str, os.PathLike)):\n")),
    ("C08", None, "twin: the regular-file test of Stream held in a local",
     rep_in(FHS, "Stream.__init__", '        if hasattr(obj, "read"):\n            pos = obj.tell()\n        elif os.path.isfile(obj):\n',
            '        is_regular_file = (not hasattr(obj, "read")) and os.path.isfile(obj)\n        if hasattr(obj, "read"):\n            pos = obj.tell()\n        elif is_regular_file:\n')),
    ("C01", "C01.d", "Stream's read loop also ends on a chunk counter",
     rep_in(FHS, "Stream.__iter__", '        while True:\n            data = self._obj.read(self._buffer_size)\n\n            if not data:\n                break\n\n            yield data\n', '        chunks_left = 1 << 20\n        while chunks_left > 0:\n            data = self._obj.read(self._buffer_size)\n\n            if not data:\n                break\n\n            chunks_left -= 1\n            yield data\n')),
    ("C09", "C09.g", "Stream's read loop also ends on a chunk counter",
     rep_in(FHS, "Stream.__iter__", '        while True:\n            data = self._obj.read(self._buffer_size)\n\n            if not data:\n                break\n\n            yield data\n', '        chunks_left = 1 << 20\n        while chunks_left > 0:\n            data = self._obj.read(self._buffer_size)\n\n            if not data:\n                break\n\n            chunks_left -= 1\n            yield data\n')),
    ("C01", None, "twin: two read assignments in the loop, still ended only by the empty read",
     rep_in(FHS, "Stream.__iter__", '        while True:\n            data = self._obj.read(self._buffer_size)\n\n            if not data:\n                break\n\n            yield data\n', '        first = True\n        while True:\n            if first:\n                data = self._obj.read(self._buffer_size)\n                first = False\n            else:\n                data = self._obj.read(self._buffer_size)\n\n            if not data:\n                break\n\n            yield data\n')),
    ("C15", "C15.b", "_shard groups the digest with zip over a repeated iterator (drops the incomplete tail)",
     rep_in(FHS, "_shard", '        hierarchical_list = compact(\n            [checksum[i * self.width : self.width * (i + 1)] for i in range(self.depth)]\n            + [checksum[self.depth * self.width :]]\n        )\n', '        tokens = ["".join(chars) for chars in zip(*[iter(checksum)] * self.width)]\n        hierarchical_list = compact(\n            tokens[: self.depth] + ["".join(tokens[self.depth :])]\n        )\n')),
    ("C10", "C10.f", "the in-place rewrite of the cid list sorts the lines it keeps",
     rep_in(FHS, "_update_refs_file", '                    new_pid_lines = [\n                        cid_pid_line\n                        for cid_pid_line in ref_file.readlines()\n                        if cid_pid_line.strip() != ref_id\n                    ]\n', '                    new_pid_lines = sorted(\n                        cid_pid_line\n                        for cid_pid_line in ref_file.readlines()\n                        if cid_pid_line.strip() != ref_id\n                    )\n')),
    ("C10", None, "twin: the lines read held in a local before filtering",
     rep_in(FHS, "_update_refs_file", '                    new_pid_lines = [\n                        cid_pid_line\n                        for cid_pid_line in ref_file.readlines()\n                        if cid_pid_line.strip() != ref_id\n                    ]\n', '                    old_pid_lines = ref_file.readlines()\n                    new_pid_lines = [\n                        cid_pid_line\n                        for cid_pid_line in old_pid_lines\n                        if cid_pid_line.strip() != ref_id\n                    ]\n')),
    ("C12", "C12.k", "a stale marker is removed (check, then os.remove) before the rename onto it",
     rep_in(FHS, "_rename_path_for_deletion", '        delete_path = path.with_name(path.stem + "_delete" + path.suffix)\n        shutil.move(path, delete_path)\n', '        delete_path = path.with_name(path.stem + "_delete" + path.suffix)\n        if delete_path.exists():\n            os.remove(delete_path)\n        shutil.move(path, delete_path)\n')),
    ("C12", None, "twin: a stale marker is only logged",
     rep_in(FHS, "_rename_path_for_deletion", '        delete_path = path.with_name(path.stem + "_delete" + path.suffix)\n        shutil.move(path, delete_path)\n', '        delete_path = path.with_name(path.stem + "_delete" + path.suffix)\n        if delete_path.exists():\n            logging.debug("A stale marker is about to be replaced: %s", delete_path)\n        shutil.move(path, delete_path)\n')),
    ("C15", None, "twin: a stale marker is only logged (the probe carries the look-up's candidate set)",
     rep_in(FHS, "_rename_path_for_deletion", '        delete_path = path.with_name(path.stem + "_delete" + path.suffix)\n        shutil.move(path, delete_path)\n', '        delete_path = path.with_name(path.stem + "_delete" + path.suffix)\n        if delete_path.exists():\n            logging.debug("A stale marker is about to be replaced: %s", delete_path)\n        shutil.move(path, delete_path)\n')),
    ("C12", None, "twin: a stale marker is removed inside a handler that absorbs its absence",
     rep_in(FHS, "_rename_path_for_deletion", '        delete_path = path.with_name(path.stem + "_delete" + path.suffix)\n        shutil.move(path, delete_path)\n', '        delete_path = path.with_name(path.stem + "_delete" + path.suffix)\n        try:\n            os.remove(delete_path)\n        except OSError:\n            pass\n        shutil.move(path, delete_path)\n')),
    ("C14", "C14.i", "the instance keeps depth and width as the caller spelled them",
     rep_in(FHS, "__init__", "            self.depth = prop_store_depth\n            self.width = prop_store_width\n",
            "            self.depth = properties[\"store_depth\"]\n            self.width = properties[\"store_width\"]\n")),
    ("C15", "C15.h", "the instance keeps depth and width as the caller spelled them",
     rep_in(FHS, "__init__", "            self.depth = prop_store_depth\n            self.width = prop_store_width\n",
            "            self.depth = properties[\"store_depth\"]\n            self.width = properties[\"store_width\"]\n")),
    ("C14", None, "twin: depth and width taken from the validated copy by key",
     rep_in(FHS, "__init__", "            self.depth = prop_store_depth\n            self.width = prop_store_width\n",
            "            self.depth = checked_properties[\"store_depth\"]\n            self.width = checked_properties[\"store_width\"]\n")),
    ("C12", None, "twin: a stale marker is removed under contextlib.suppress(OSError)",
     chain(rep_in(FHS, "_rename_path_for_deletion", '        delete_path = path.with_name(path.stem + "_delete" + path.suffix)\n        shutil.move(path, delete_path)\n', '        delete_path = path.with_name(path.stem + "_delete" + path.suffix)\n        with contextlib.suppress(OSError):\n            os.remove(delete_path)\n        shutil.move(path, delete_path)\n'), rep(FHS, "import atexit\n", "import atexit\nimport contextlib\n"))),
    ("C12", None, "twin: a stale marker is removed with unlink(missing_ok=True)",
     rep_in(FHS, "_rename_path_for_deletion", '        delete_path = path.with_name(path.stem + "_delete" + path.suffix)\n        shutil.move(path, delete_path)\n', '        delete_path = path.with_name(path.stem + "_delete" + path.suffix)\n        delete_path.unlink(missing_ok=True)\n        shutil.move(path, delete_path)\n')),
    ("C10", None, "twin: the lines kept are de-duplicated in the order read (dict.fromkeys)",
     rep_in(FHS, "_update_refs_file", '                    new_pid_lines = [\n                        cid_pid_line\n                        for cid_pid_line in ref_file.readlines()\n                        if cid_pid_line.strip() != ref_id\n                    ]\n', '                    new_pid_lines = list(dict.fromkeys(\n                        cid_pid_line\n                        for cid_pid_line in ref_file.readlines()\n                        if cid_pid_line.strip() != ref_id\n                    ))\n')),
    ("C13", "C13.h", "return inside finally swallows the error",
     rep_in(FHS, "_delete_object_only", "        finally:\n            self._release_object_locked_cids(cid)\n", "        finally:\n            self._release_object_locked_cids(cid)\n            return\n")),
]


def _run_one(args):
    prop, expect, name, idx, sources = args
    from .engine import Analysis
    from .__main__ import registry
    from .report import load_known
    try:
        prog = Program(sources)
        A = Analysis(prog)
        rules = registry()[prop](A, "quick")
        problems = A.problems()
        from .report import split_known
        new, _old = split_known([f for r in rules for f in r.findings], [k for k in load_known().get("known", []) if k.get("property") == prop])
        found = sorted({f.rule for f in new})
        floors = [r.rid for r in rules if len(r.instances) < (max(1, (r.floor + 2) // 3) if r.floor else 0)]
        return (idx, found, problems[:2], floors, None)
    except AnalysisError as e:
        return (idx, [], [], [], f"analysis error: {e}")
    except Exception as e:  # noqa: BLE001
        return (idx, [], [], [], f"internal error: {type(e).__name__}: {e}")


def sweep(prop, A, jobs=16):
    base = read_sources(A.p.root)
    todo = []
    skipped = []
    generic = [(prop, None, "twin: whole package re-printed by ast.unparse (formatting / comments / line numbers change)",
                chain(unparse_roundtrip(FHS), unparse_roundtrip(CLI)))]
    generic.append((prop, None, "twin: every local variable of every function alpha-renamed (and the package re-printed)",
                    chain(rename_locals(FHS), rename_locals(CLI))))
    generic.append((prop, None, "twin: every `if A(terminal) else B` rewritten as a guard clause followed by B",
                    chain(restructure_ifs(FHS, "guard"), restructure_ifs(CLI, "guard"))))
    generic.append((prop, None, "twin: every `if a and b: X` (no else) split into nested ifs", chain(restructure_ifs(FHS, "splitand"), restructure_ifs(CLI, "splitand"))))
    generic.append((prop, None, "twin: every `if a: if b: X` (no elses) merged into `if a and b: X`", chain(restructure_ifs(FHS, "mergeand"), restructure_ifs(CLI, "mergeand"))))
    generic.append((prop, None, "twin: every `if c: A else: B` rewritten as `if not c: B else: A`",
                    chain(restructure_ifs(FHS, "invert"), restructure_ifs(CLI, "invert"))))
    for how, what in (("swapeq", "operands of every == / != swapped"), ("keywords", "positional arguments of every self.method(...) call passed by keyword"),
                      ("retinline", "`x = e; return x` written as `return e`"), ("withmerge", "directly nested with-statements merged"),
                      ("waitfor", "every claim wait loop `while K in L: C.wait()` written as `C.wait_for(lambda: K not in L)`")):
        generic.append((prop, None, f"twin: {what}", chain(mechanical(FHS, how), mechanical(CLI, how))))
    generic.append((prop, None, "twin: call arguments that are calls first bound to fresh locals", chain(more_mechanical(FHS, "tempargs"), more_mechanical(CLI, "tempargs"))))
    generic.append((prop, None, "twin: a debug logging statement at the start of every block of every method", chain(more_mechanical(FHS, "logging"), more_mechanical(CLI, "logging"))))
    from .engine import PUBLIC_API
    generic.append((prop, None, "twin: every public method delegates to a private _<name>_impl that holds its body", delegate_public(FHS, set(PUBLIC_API))))
    combo = []
    for fn_ in (FHS, CLI):
        combo += [rename_locals(fn_), restructure_ifs(fn_, "invert"), restructure_ifs(fn_, "guard"), mechanical(fn_, "swapeq"),
                  mechanical(fn_, "keywords"), mechanical(fn_, "retinline"), mechanical(fn_, "withmerge")]
    generic.append((prop, None, "twin: all seven mechanical rewrites applied together", chain(*combo)))
    for i, (p, expect, name, edit) in enumerate(VARIANTS + generic):
        if p != prop:
            continue
        try:
            src = edit(base)
        except SyntaxError:
            src = None
        if src is None:
            skipped.append(name)
            continue
        try:
            for fn, s in src.items():
                compile(s, fn, "exec")
        except SyntaxError as e:
            skipped.append(f"{name} (edit does not compile: {e})")
            continue
        todo.append((p, expect, name, i, src))
    results = []
    if todo:
        import multiprocessing as mp
        with mp.get_context("fork").Pool(min(jobs, len(todo))) as pool:
            results = pool.map(_run_one, todo)
    by = {r[0]: r for r in results}
    out = {"variants": 0, "caught": 0, "twins": 0, "silent": 0, "missed": [], "skipped": skipped, "details": []}
    for (p, expect, name, i, src) in todo:
        idx, found, problems, floors, err = by[i]
        if expect is None:
            out["twins"] += 1
            ok = not found and not err and not problems and not floors
            out["silent"] += int(ok)
            out["details"].append({"twin": name, "silent": ok, "reported": found, "error": err or problems or floors})
            if not ok:
                out["missed"].append(f"twin `{name}` is not silent: reported {found or err or problems or floors} — the rule would "
                                     "alarm on a behaviour-preserving edit")
        else:
            out["variants"] += 1
            # an edit the analysis refuses to read (exit 2) is also not a silent pass
            ok = expect in found or bool(err) or bool(problems) or bool(floors)
            out["caught"] += int(ok)
            out["details"].append({"variant": name, "expected": expect, "reported": found,
                                   "refused": err or (problems[0] if problems else None) or (floors or None)})
            if not ok:
                out["missed"].append(f"variant `{name}` should be reported by {expect}; reported: {found or 'nothing'}")
    return out


# ----------------------------------------------------------------------------------------
# replay of the confirmed seeded changes (/verif/seeded/*/patch.diff), applied in memory
# ----------------------------------------------------------------------------------------
def apply_unified_diff(sources, diff_text):
    """apply a `git diff` to the {file name: text} mapping (exact context, small offset
    search); returns the new mapping or None when a hunk does not fit"""
    out = dict(sources)
    cur = None
    hunks = {}
    for line in diff_text.splitlines():
        if line.startswith("+++ "):
            path = line[4:].strip()
            cur = path.split("/")[-1] if path != "/dev/null" else None
            hunks.setdefault(cur, [])
        elif line.startswith("@@") and cur is not None:
            m = re.match(r"@@ -(\d+)(?:,(\d+))? \+(\d+)(?:,(\d+))? @@", line)
            hunks[cur].append({"old_start": int(m.group(1)), "lines": []})
        elif cur is not None and hunks.get(cur) and (line[:1] in (" ", "+", "-") or line == ""):
            if line.startswith("---") or line.startswith("+++"):
                continue
            hunks[cur][-1]["lines"].append(line if line else " ")
    for fn, hs in hunks.items():
        if fn is not None and fn not in out and hs and all(h["old_start"] == 0 for h in hs):
            # a file the patch creates
            out[fn] = "\n".join(l[1:] for h in hs for l in h["lines"] if l[:1] == "+") + "\n"
            continue
        if fn not in out or not hs:
            continue
        src = out[fn].split("\n")
        shift = 0
        for h in hs:
            old = [l[1:] for l in h["lines"] if l[:1] in (" ", "-")]
            new = [l[1:] for l in h["lines"] if l[:1] in (" ", "+")]
            base = h["old_start"] - 1 + shift
            pos = None
            for off in sorted(range(-60, 61), key=abs):
                p = base + off
                if 0 <= p and src[p:p + len(old)] == old:
                    pos = p
                    break
            if pos is None:
                return None
            src[pos:pos + len(old)] = new
            shift += len(new) - len(old)
        out[fn] = "\n".join(src)
    return out


def replay_seeded(prop, A, jobs=16):
    import glob
    import json
    import os
    base = read_sources(A.p.root)
    root = os.path.join(os.path.dirname(os.path.dirname(os.path.abspath(__file__))), "seeded")
    todo = []
    names = []
    for d in sorted(glob.glob(os.path.join(root, "*"))):
        mp = os.path.join(d, "meta.json")
        pp = os.path.join(d, "patch.diff")
        if not (os.path.exists(mp) and os.path.exists(pp)):
            continue
        meta = json.load(open(mp))
        if prop not in (meta.get("checks_reporting") or []):
            continue
        src = apply_unified_diff(base, open(pp).read())
        if src is None:
            names.append((meta["seed_id"], "does not apply to the current source"))
            continue
        todo.append((prop, "any", meta["seed_id"], len(todo), src))
    res = []
    if todo:
        import multiprocessing as mp_
        with mp_.get_context("fork").Pool(min(jobs, len(todo))) as pool:
            res = pool.map(_run_one, todo)
    out = {"replayed": len(todo), "reported": 0, "not_applicable": names, "missed": []}
    for (p, e, sid, i, src), (idx, found, problems, floors, err) in zip(todo, res):
        if found:
            out["reported"] += 1
        else:
            out["missed"].append(f"seeded change {sid} is no longer reported by {prop} (reported: nothing; {err or problems or floors or ''})")
    return out


def replay_benign(prop, A, jobs=16):
    """the behaviour-preserving refactorings collected in /verif/benign (each written by an independent agent, each leaving the
    250 tests green), applied in memory to the current source: none may be reported under `prop`"""
    import glob
    import os
    base = read_sources(A.p.root)
    root = os.path.join(os.path.dirname(os.path.dirname(os.path.abspath(__file__))), "benign")
    todo, skipped = [], []
    for d in sorted(glob.glob(os.path.join(root, "*"))):
        pp = os.path.join(d, "patch.diff")
        if not os.path.exists(pp):
            continue
        src = apply_unified_diff(base, open(pp).read())
        if src is None:
            skipped.append(os.path.basename(d))
            continue
        todo.append((prop, None, os.path.basename(d), len(todo), src))
    res = []
    if todo:
        import multiprocessing as mp_
        with mp_.get_context("fork").Pool(min(jobs, len(todo))) as pool:
            res = pool.map(_run_one, todo)
    out = {"replayed": len(todo), "silent": 0, "not_applicable": skipped, "missed": []}
    for (p, e, bid, i, src), (idx, found, problems, floors, err) in zip(todo, res):
        if not found and not err and not problems and not floors:
            out["silent"] += 1
        else:
            out["missed"].append(f"refactoring {bid} (behaviour-preserving) is not silent under {prop}: {found or err or problems or floors}")
    return out
