"""Loader: parse the package, index functions and classes, check the trusted-base
assumptions (no exec/eval/metaclass/__getattr__), compute the source digest."""

from __future__ import annotations

import ast
import hashlib
import os

from .terms import AnalysisError

MODULES = ["__init__.py", "hashstore.py", "filehashstore.py", "filehashstore_exceptions.py", "hashstoreclient.py"]


class Func:
    __slots__ = ("qual", "node", "module", "cls", "parent", "is_static", "is_class", "is_ctxmgr")

    def __init__(self, qual, node, module, cls, parent=None):
        self.qual = qual
        self.node = node
        self.module = module
        self.cls = cls
        self.parent = parent
        decos = [ast.unparse(d) for d in node.decorator_list]
        self.is_static = "staticmethod" in decos
        self.is_class = "classmethod" in decos
        self.is_ctxmgr = any(d.endswith("contextmanager") for d in decos)

    @property
    def name(self):
        return self.node.name

    def __repr__(self):
        return f"<Func {self.qual}>"


class Module:
    def __init__(self, name, path, src):
        self.name = name  # e.g. filehashstore
        self.path = path
        self.src = src
        self.lines = src.splitlines()
        try:
            self.tree = ast.parse(src, filename=path)
        except SyntaxError as e:  # pragma: no cover
            raise AnalysisError(f"syntax error in {path}: {e}")
        self.imports = {}  # local name -> dotted
        for n in ast.walk(self.tree):
            for c in ast.iter_child_nodes(n):
                c._parent = n  # type: ignore[attr-defined]
        for st in self.tree.body:
            if isinstance(st, ast.Import):
                for a in st.names:
                    self.imports[a.asname or a.name.split(".")[0]] = a.name if a.asname else a.name.split(".")[0]
            elif isinstance(st, ast.ImportFrom):
                for a in st.names:
                    self.imports[a.asname or a.name] = f"{st.module}.{a.name}"


class Program:
    """All parsed modules + indexes.  Built from a mapping file name -> source text, so
    that self-test variants can be analysed in memory without touching the file system."""

    def __init__(self, sources: dict[str, str], root="/repo/src/hashstore"):
        self.root = root
        self.modules: dict[str, Module] = {}
        self.funcs: dict[str, Func] = {}
        self.classes: dict[str, ast.ClassDef] = {}
        self.class_module: dict[str, Module] = {}
        h = hashlib.sha256()
        for fn in sorted(sources):
            src = sources[fn]
            h.update(fn.encode() + b"\0" + src.encode() + b"\0")
            name = fn[:-3]
            m = Module(name, os.path.join(root, fn), src)
            self.modules[name] = m
            self._index(m)
        self.digest = h.hexdigest()
        self._check_trusted_base()
        self.exc_classes = self._exception_classes()

    # ------------------------------------------------------------------
    def _index(self, m: Module):
        def visit(body, prefix, cls, parent):
            for st in body:
                if isinstance(st, (ast.FunctionDef, ast.AsyncFunctionDef)):
                    q = f"{prefix}{st.name}"
                    f = Func(q, st, m, cls, parent)
                    key = q if q not in self.funcs else f"{m.name}:{q}"
                    self.funcs[key] = f
                    st._func = f  # type: ignore[attr-defined]
                    visit(st.body, q + ".<locals>.", cls, f)
                elif isinstance(st, ast.ClassDef):
                    self.classes[st.name] = st
                    self.class_module[st.name] = m
                    visit(st.body, st.name + ".", st.name, None)
                elif isinstance(st, (ast.If, ast.Try, ast.With, ast.For, ast.While)):
                    for fld in ("body", "orelse", "finalbody"):
                        visit(getattr(st, fld, []) or [], prefix, cls, parent)
                    for hd in getattr(st, "handlers", []) or []:
                        visit(hd.body, prefix, cls, parent)

        pre = "" if m.name != "hashstoreclient" else ""
        visit(m.tree.body, pre, None, None)

    def _check_trusted_base(self):
        for m in self.modules.values():
            if m.name not in ("filehashstore", "hashstore"):
                continue
            for n in ast.walk(m.tree):
                if isinstance(n, ast.Call) and isinstance(n.func, ast.Name) and n.func.id in ("exec", "eval", "setattr", "__import__"):
                    raise AnalysisError(f"{m.path}:{n.lineno}: dynamic construct {n.func.id}() — call resolution would be unsound")
                if isinstance(n, ast.FunctionDef) and n.name in ("__getattr__", "__getattribute__", "__setattr__"):
                    raise AnalysisError(f"{m.path}:{n.lineno}: {n.name} defined — attribute resolution would be unsound")
                if isinstance(n, ast.ClassDef):
                    for kw in n.keywords:
                        if kw.arg == "metaclass":
                            raise AnalysisError(f"{m.path}:{n.lineno}: metaclass — unsound")
                if isinstance(n, ast.FunctionDef):
                    for d in n.decorator_list:
                        ds = ast.unparse(d)
                        if ds not in ("staticmethod", "classmethod", "abstractmethod", "property", "dataclass",
                                      "contextmanager", "contextlib.contextmanager"):
                            raise AnalysisError(f"{m.path}:{n.lineno}: decorator {ds} with unknown behaviour")

    def _exception_classes(self):
        """custom exception class -> tuple of base names"""
        out = {}
        for name, c in self.classes.items():
            bases = [ast.unparse(b) for b in c.bases]
            if self.class_module[name].name == "filehashstore_exceptions" or any(
                b.endswith("Exception") or b.endswith("Error") for b in bases
            ):
                out[name] = tuple(bases)
        return out

    # ------------------------------------------------------------------
    def func(self, qual) -> Func:
        f = self.funcs.get(qual)
        if f is None:
            raise AnalysisError(f"anchor function {qual} not found in /repo/src/hashstore (renamed or deleted?)")
        return f

    def has_func(self, qual):
        return qual in self.funcs

    def method(self, cls, name):
        return self.funcs.get(f"{cls}.{name}")

    def class_attr_assigns(self, cls):
        """class-level simple assignments name -> value node"""
        out = {}
        c = self.classes.get(cls)
        if c is None:
            raise AnalysisError(f"anchor class {cls} not found")
        for st in c.body:
            if isinstance(st, ast.Assign) and len(st.targets) == 1 and isinstance(st.targets[0], ast.Name):
                out[st.targets[0].id] = st.value
            elif isinstance(st, ast.AnnAssign) and isinstance(st.target, ast.Name):
                out[st.target.id] = st.value
        return out

    def is_namedtuple(self, cls):
        """class X(NamedTuple): fields are the annotated names, instances are tuples of them (in order)"""
        c = self.classes.get(cls)
        return c is not None and any(ast.unparse(b).split(".")[-1] == "NamedTuple" for b in c.bases)

    def dataclass_fields(self, cls):
        c = self.classes.get(cls)
        if c is None:
            return None
        if not any(ast.unparse(d).startswith("dataclass") for d in c.decorator_list) and not self.is_namedtuple(cls):
            return None
        return [st.target.id for st in c.body if isinstance(st, ast.AnnAssign) and isinstance(st.target, ast.Name)]

    def loc(self, func: Func, node):
        rel = os.path.relpath(func.module.path, "/repo") if func.module.path.startswith("/repo") else func.module.path
        return f"{rel}:{getattr(node, 'lineno', 0)}"


def read_sources(root="/repo/src/hashstore") -> dict[str, str]:
    out = {}
    if not os.path.isdir(root):
        raise AnalysisError(f"{root} not found")
    present = sorted(f for f in os.listdir(root) if f.endswith(".py"))
    for fn in MODULES:
        if fn not in present:
            raise AnalysisError(f"module {fn} missing under {root}")
    for fn in present:
        with open(os.path.join(root, fn), encoding="utf-8") as fh:
            out[fn] = fh.read()
    return out


def load(root="/repo/src/hashstore") -> Program:
    return Program(read_sources(root), root)


def norm(node) -> str:
    """whitespace-insensitive normal text of a construct (finding keys)"""
    if isinstance(node, str):
        return " ".join(node.split())
    return " ".join(ast.unparse(node).split())
