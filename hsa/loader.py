"""Loader: parse the package, index functions and classes, check the trusted-base
assumptions (no exec/eval/metaclass/__getattr__), compute the source digest."""

from __future__ import annotations

import ast
import hashlib
import os

from .terms import AnalysisError

MODULES = ["__init__.py", "hashstore.py", "filehashstore.py", "filehashstore_exceptions.py", "hashstoreclient.py"]


_ANCHORS = None


def anchor_names():
    """the method names the rules refer to (read off the rule modules' own source: Q("..."), impl("..."), impl_q("..."),
    api("...") and the entry-point list)"""
    global _ANCHORS
    if _ANCHORS is None:
        import re
        here = os.path.dirname(os.path.abspath(__file__))
        names = set()
        for fn in os.listdir(here):
            if fn.startswith(("rules_", "engine", "interp", "exprs", "locks")) and fn.endswith(".py"):
                txt = open(os.path.join(here, fn), encoding="utf-8").read()
                names |= set(re.findall(r'(?:Q|impl|impl_q|api)\(\s*"(\w+)"', txt))
                names |= set(re.findall(r'"(?:FileHashStore|Stream|HashStoreParser|HashStoreClient)\.(\w+)"', txt))
                names |= set(re.findall(r'"(_[a-z]\w+)"', txt))
        _ANCHORS = names
    return _ANCHORS


class Func:
    __slots__ = ("qual", "node", "module", "cls", "parent", "is_static", "is_class", "is_ctxmgr", "inherited")

    def __init__(self, qual, node, module, cls, parent=None):
        self.qual = qual
        self.node = node
        self.module = module
        self.cls = cls
        self.parent = parent
        self.inherited = False   # registered under a subclass's name (the definition lives in a base class of the package)
        decos = [ast.unparse(d) for d in node.decorator_list]
        self.is_static = "staticmethod" in decos
        self.is_class = "classmethod" in decos
        self.is_ctxmgr = any(d.endswith("contextmanager") for d in decos)

    @property
    def name(self):
        return self.node.name

    def __repr__(self):
        return f"<Func {self.qual}>"


class Module:
    def __init__(self, name, path, src):
        self.name = name  # e.g. filehashstore
        self.path = path
        self.src = src
        self.lines = src.splitlines()
        try:
            self.tree = ast.parse(src, filename=path)
        except SyntaxError as e:  # pragma: no cover
            raise AnalysisError(f"syntax error in {path}: {e}")
        self.imports = {}  # local name -> dotted
        for n in ast.walk(self.tree):
            for c in ast.iter_child_nodes(n):
                c._parent = n  # type: ignore[attr-defined]
        for st in self.tree.body:
            if isinstance(st, ast.Import):
                for a in st.names:
                    self.imports[a.asname or a.name.split(".")[0]] = a.name if a.asname else a.name.split(".")[0]
            elif isinstance(st, ast.ImportFrom):
                for a in st.names:
                    self.imports[a.asname or a.name] = f"{st.module}.{a.name}"


class Program:
    """All parsed modules + indexes.  Built from a mapping file name -> source text, so
    that self-test variants can be analysed in memory without touching the file system."""

    def __init__(self, sources: dict[str, str], root="/repo/src/hashstore"):
        self.root = root
        self.modules: dict[str, Module] = {}
        self.funcs: dict[str, Func] = {}
        self.classes: dict[str, ast.ClassDef] = {}
        self.class_module: dict[str, Module] = {}
        h = hashlib.sha256()
        mods = []
        for fn in sorted(sources):
            src = sources[fn]
            h.update(fn.encode() + b"\0" + src.encode() + b"\0")
            name = fn[:-3]
            m = Module(name, os.path.join(root, fn), src)
            self.modules[name] = m
            mods.append(m)
        self._fold_aliases(mods)
        for m in mods:
            self._index(m)
        self.digest = h.hexdigest()
        self._inherit()
        self._check_trusted_base()
        self.exc_classes = self._exception_classes()

    # ------------------------------------------------------------------
    def _index(self, m: Module):
        def visit(body, prefix, cls, parent):
            for st in body:
                if isinstance(st, (ast.FunctionDef, ast.AsyncFunctionDef)):
                    q = f"{prefix}{st.name}"
                    f = Func(q, st, m, cls, parent)
                    key = q if q not in self.funcs else f"{m.name}:{q}"
                    self.funcs[key] = f
                    st._func = f  # type: ignore[attr-defined]
                    visit(st.body, q + ".<locals>.", cls, f)
                elif isinstance(st, ast.ClassDef):
                    self.classes[st.name] = st
                    self.class_module[st.name] = m
                    visit(st.body, st.name + ".", st.name, None)
                elif isinstance(st, (ast.If, ast.Try, ast.With, ast.For, ast.While)):
                    for fld in ("body", "orelse", "finalbody"):
                        visit(getattr(st, fld, []) or [], prefix, cls, parent)
                    for hd in getattr(st, "handlers", []) or []:
                        visit(hd.body, prefix, cls, parent)

        pre = "" if m.name != "hashstoreclient" else ""
        visit(m.tree.body, pre, None, None)

    def _fold_aliases(self, mods):
        """`old = new` at class level, where `new` is a method defined in the same class, makes two names for one method (a
        rename that keeps the former name for existing callers).  The rules know the methods by the names they have on the
        pinned tree; the program is therefore normalised to the name the rules know: the definition and every attribute
        reference in the package are read as `old` (the alias assignment disappears).  Nothing else changes."""
        known = anchor_names()
        ren = {}
        for m in mods:
            for c in [n for n in ast.walk(m.tree) if isinstance(n, ast.ClassDef)]:
                defs = {st.name for st in c.body if isinstance(st, (ast.FunctionDef, ast.AsyncFunctionDef))}
                for st in list(c.body):
                    if isinstance(st, ast.Assign) and len(st.targets) == 1 and isinstance(st.targets[0], ast.Name) and isinstance(st.value, ast.Name) \
                            and st.value.id in defs and st.targets[0].id not in defs:
                        old_, new_ = st.targets[0].id, st.value.id
                        if old_ in known and new_ not in known and new_ not in ren:
                            ren[new_] = old_
                            c.body.remove(st)
        if not ren:
            return
        for m in mods:
            for n in ast.walk(m.tree):
                if isinstance(n, (ast.FunctionDef, ast.AsyncFunctionDef)) and n.name in ren:
                    n.name = ren[n.name]
                elif isinstance(n, ast.Attribute) and n.attr in ren:
                    n.attr = ren[n.attr]
        self.folded_aliases = dict(ren)

    def _inherit(self):
        """methods a class of the package inherits from base classes that are themselves defined in the package (a mixin, a
        split-off helper class) are methods of that class: registered under its name as well, in MRO order (left to right,
        depth first - the package has no diamonds), sharing the AST of the definition"""
        def bases_of(cname, seen=()):
            c = self.classes.get(cname)
            out = []
            for b in (c.bases if c is not None else []):
                bn = ast.unparse(b).split(".")[-1]
                if bn in self.classes and bn not in seen and bn != cname:
                    out.append(bn)
                    out += [x for x in bases_of(bn, seen + (cname,)) if x not in out]
            return out

        for cname in list(self.classes):
            for b in bases_of(cname):
                for q, f in list(self.funcs.items()):
                    if f.cls == b and f.parent is None and q == f"{b}.{f.node.name}":
                        key = f"{cname}.{f.node.name}"
                        if key not in self.funcs:
                            self.funcs[key] = Func(key, f.node, f.module, cname, None)
                            self.funcs[key].inherited = True

    def _check_trusted_base(self):
        for m in self.modules.values():
            if m.name in ("hashstoreclient", "__init__", "filehashstore_exceptions"):
                continue
            for n in ast.walk(m.tree):
                if isinstance(n, ast.Call) and isinstance(n.func, ast.Name) and n.func.id in ("exec", "eval", "setattr", "__import__"):
                    raise AnalysisError(f"{m.path}:{n.lineno}: dynamic construct {n.func.id}() — call resolution would be unsound")
                if isinstance(n, ast.FunctionDef) and n.name in ("__getattr__", "__getattribute__", "__setattr__"):
                    raise AnalysisError(f"{m.path}:{n.lineno}: {n.name} defined — attribute resolution would be unsound")
                if isinstance(n, ast.ClassDef):
                    for kw in n.keywords:
                        if kw.arg == "metaclass":
                            raise AnalysisError(f"{m.path}:{n.lineno}: metaclass — unsound")
                if isinstance(n, ast.FunctionDef):
                    for d in n.decorator_list:
                        ds = ast.unparse(d)
                        if ds not in ("staticmethod", "classmethod", "abstractmethod", "property", "dataclass",
                                      "contextmanager", "contextlib.contextmanager"):
                            raise AnalysisError(f"{m.path}:{n.lineno}: decorator {ds} with unknown behaviour")

    def _exception_classes(self):
        """custom exception class -> tuple of base names"""
        out = {}
        for name, c in self.classes.items():
            bases = [ast.unparse(b) for b in c.bases]
            if self.class_module[name].name == "filehashstore_exceptions" or any(
                b.endswith("Exception") or b.endswith("Error") for b in bases
            ):
                out[name] = tuple(bases)
        return out

    # ------------------------------------------------------------------
    def func(self, qual) -> Func:
        f = self.funcs.get(qual)
        if f is None:
            raise AnalysisError(f"anchor function {qual} not found in /repo/src/hashstore (renamed or deleted?)")
        return f

    def has_func(self, qual):
        return qual in self.funcs

    def method(self, cls, name):
        return self.funcs.get(f"{cls}.{name}")

    def ctor_funcs(self, cls):
        """the constructor of `cls` and the methods that only ever run as part of it: every `self.m(...)` call of such a method
        in the package stands in the constructor or in another such method (fixpoint).  A long `__init__` split into
        `_init_paths()` / `_init_synchronization()` keeps what the rules read off "the constructor"."""
        cache = self.__dict__.setdefault("_ctor_funcs", {})
        if cls in cache:
            return cache[cls]
        init = self.method(cls, "__init__")
        if init is None:
            cache[cls] = []
            return []
        callers = {}   # method name -> set of quals of the (top-level) functions that call self.<name>(...)
        for q, f in self.funcs.items():
            if f.inherited:
                continue
            top = f
            while top.parent is not None:
                top = top.parent
            for c in ast.walk(f.node):
                if isinstance(c, ast.Call) and isinstance(c.func, ast.Attribute) and isinstance(c.func.value, ast.Name) and c.func.value.id in ("self", cls):
                    callers.setdefault(c.func.attr, set()).add(top.qual)
                elif isinstance(c, ast.Attribute) and isinstance(c.value, ast.Name) and c.value.id == "self" and isinstance(getattr(c, "ctx", None), ast.Load) \
                        and self.method(cls, c.attr) is not None and not isinstance(getattr(c, "_parent", None), ast.Call):
                    callers.setdefault(c.attr, set()).add("<escapes>")     # method object handed around: may run any time
        ctor = {init.qual}
        changed = True
        while changed:
            changed = False
            for name, who in callers.items():
                m = self.method(cls, name)
                if m is not None and m.qual not in ctor and who and who <= ctor:
                    ctor.add(m.qual)
                    changed = True
        cache[cls] = [self.funcs[q] for q in sorted(ctor, key=lambda q: (q != init.qual, q))]
        return cache[cls]

    def class_attr_assigns(self, cls):
        """class-level simple assignments name -> value node"""
        out = {}
        c = self.classes.get(cls)
        if c is None:
            raise AnalysisError(f"anchor class {cls} not found")
        for st in c.body:
            if isinstance(st, ast.Assign) and len(st.targets) == 1 and isinstance(st.targets[0], ast.Name):
                out[st.targets[0].id] = st.value
            elif isinstance(st, ast.AnnAssign) and isinstance(st.target, ast.Name):
                out[st.target.id] = st.value
        return out

    def is_namedtuple(self, cls):
        """class X(NamedTuple): fields are the annotated names, instances are tuples of them (in order)"""
        c = self.classes.get(cls)
        return c is not None and any(ast.unparse(b).split(".")[-1] == "NamedTuple" for b in c.bases)

    def dataclass_fields(self, cls):
        c = self.classes.get(cls)
        if c is None:
            return None
        if not any(ast.unparse(d).startswith("dataclass") for d in c.decorator_list) and not self.is_namedtuple(cls):
            return None
        return [st.target.id for st in c.body if isinstance(st, ast.AnnAssign) and isinstance(st.target, ast.Name)]

    def loc(self, func: Func, node):
        rel = os.path.relpath(func.module.path, "/repo") if func.module.path.startswith("/repo") else func.module.path
        return f"{rel}:{getattr(node, 'lineno', 0)}"


def read_sources(root="/repo/src/hashstore") -> dict[str, str]:
    out = {}
    if not os.path.isdir(root):
        raise AnalysisError(f"{root} not found")
    present = sorted(f for f in os.listdir(root) if f.endswith(".py"))
    for fn in MODULES:
        if fn not in present:
            raise AnalysisError(f"module {fn} missing under {root}")
    for fn in present:
        with open(os.path.join(root, fn), encoding="utf-8") as fh:
            out[fn] = fh.read()
    return out


def load(root="/repo/src/hashstore") -> Program:
    return Program(read_sources(root), root)


def norm(node) -> str:
    """whitespace-insensitive normal text of a construct (finding keys)"""
    if isinstance(node, str):
        return " ".join(node.split())
    return " ".join(ast.unparse(node).split())
