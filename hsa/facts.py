"""A6 — guard formulas and a tiny propositional entailment by truth-table enumeration
over the (few) atoms in the cone of influence of a query.  No solver: the atom set of any
query in this code base is < 12, the table is enumerated completely."""

from __future__ import annotations

from itertools import product

LIT_T = ("lit", True)
LIT_F = ("lit", False)


def f_not(f):
    if f == LIT_T:
        return LIT_F
    if f == LIT_F:
        return LIT_T
    if f[0] == "not":
        return f[1]
    return ("not", f)


def f_and(fs):
    out = []
    for f in fs:
        if f == LIT_F:
            return LIT_F
        if f == LIT_T:
            continue
        if f[0] == "and":
            out.extend(f[1])
        else:
            out.append(f)
    if not out:
        return LIT_T
    if len(out) == 1:
        return out[0]
    return ("and", tuple(out))


def f_or(fs):
    out = []
    for f in fs:
        if f == LIT_T:
            return LIT_T
        if f == LIT_F:
            continue
        if f[0] == "or":
            out.extend(f[1])
        else:
            out.append(f)
    if not out:
        return LIT_F
    if len(out) == 1:
        return out[0]
    return ("or", tuple(out))


def atoms_of(f, acc=None):
    if acc is None:
        acc = set()
    if f[0] == "lit":
        return acc
    if f[0] == "not":
        atoms_of(f[1], acc)
    elif f[0] in ("and", "or"):
        for g in f[1]:
            atoms_of(g, acc)
    else:
        acc.add(f)
    return acc


def evaluate(f, asg):
    t = f[0]
    if t == "lit":
        return f[1]
    if t == "not":
        return not evaluate(f[1], asg)
    if t == "and":
        return all(evaluate(g, asg) for g in f[1])
    if t == "or":
        return any(evaluate(g, asg) for g in f[1])
    return asg[f]


def add_fact(facts: frozenset, f, pol: bool) -> frozenset:
    """facts ∪ {f == pol}, split into unit facts where possible"""
    if f[0] == "lit":
        return facts
    if f[0] == "not":
        return add_fact(facts, f[1], not pol)
    if f[0] == "and" and pol:
        for g in f[1]:
            facts = add_fact(facts, g, True)
        return facts
    if f[0] == "or" and not pol:
        for g in f[1]:
            facts = add_fact(facts, g, False)
        return facts
    return facts | {(f, pol)}


_OPS = {"Lt": lambda x, k: x < k, "LtE": lambda x, k: x <= k, "Gt": lambda x, k: x > k, "GtE": lambda x, k: x >= k,
        "==": lambda x, k: x == k, "!=": lambda x, k: x != k}
_FLIP = {"Lt": "Gt", "LtE": "GtE", "Gt": "Lt", "GtE": "LtE", "==": "==", "!=": "!="}


def int_atom(a):
    """(variable value-set, op, k) for an order / equality comparison of a value with an integer constant, else None"""
    if a[0] != "cmp" or a[1] not in _OPS or len(a) < 4:
        return None
    l, r = a[2], a[3]

    def const_int(v):
        if len(v) == 1:
            t = next(iter(v))
            if isinstance(t, tuple) and t and t[0] == "const" and isinstance(t[1], int) and not isinstance(t[1], bool):
                return t[1]
        return None
    kr, kl = const_int(r), const_int(l)
    if kr is not None and kl is None and l:
        return (l, a[1], kr)
    if kl is not None and kr is None and r:
        return (r, _FLIP[a[1]], kl)
    return None


def _int_feasible(asg):
    """is there, for every value compared with integer constants, an integer satisfying all the comparisons as assigned?"""
    by = {}
    for a, v in asg.items():
        ia = int_atom(a)
        if ia is not None:
            by.setdefault(ia[0], []).append((ia[1], ia[2], v))
    for cons in by.values():
        if len(cons) < 2:
            continue
        cands = set()
        for op, k, v in cons:
            cands |= {k - 1, k, k + 1}
        if not any(all(_OPS[op](x, k) == v for op, k, v in cons) for x in cands):
            return False
    return True


def implied(facts, query, max_atoms=14):
    """True / False when `facts` entail the value of `query`, else None."""
    if query[0] == "lit":
        return query[1]
    qatoms = atoms_of(query)
    # cone of influence
    rel = []
    pool = list(facts)
    cone = set(qatoms)
    changed = True
    used = set()
    while changed:
        changed = False
        for i, (f, pol) in enumerate(pool):
            if i in used:
                continue
            fa = atoms_of(f)
            ivars = {int_atom(a)[0] for a in cone if int_atom(a) is not None}
            linked = any(int_atom(a) is not None and int_atom(a)[0] in ivars for a in fa)
            if fa & cone or linked:
                used.add(i)
                rel.append((f, pol))
                if not fa <= cone:
                    cone |= fa
                    changed = True
    atoms = sorted(cone, key=repr)
    if len(atoms) > max_atoms:
        # fall back to unit facts only
        for f, pol in rel:
            if f == query:
                return pol
        return None
    vals = set()
    for bits in product((False, True), repeat=len(atoms)):
        asg = dict(zip(atoms, bits))
        if all(evaluate(f, asg) == pol for f, pol in rel) and _int_feasible(asg):
            vals.add(evaluate(query, asg))
            if len(vals) == 2:
                return None
    if len(vals) == 1:
        return vals.pop()
    # inconsistent facts (infeasible path): nothing is entailed
    return None


def consistent(facts, max_atoms=14):
    """False when the fact set is unsatisfiable (the path is infeasible)."""
    # group by connected components
    items = list(facts)
    seen = set()
    for i, (f, pol) in enumerate(items):
        if i in seen:
            continue
        comp = [(f, pol)]
        cone = set(atoms_of(f))
        seen.add(i)
        changed = True
        while changed:
            changed = False
            for j, (g, p2) in enumerate(items):
                if j in seen:
                    continue
                ga = atoms_of(g)
                if ga & cone:
                    seen.add(j)
                    comp.append((g, p2))
                    cone |= ga
                    changed = True
        atoms = sorted(cone, key=repr)
        if len(atoms) > max_atoms:
            continue
        ok = False
        for bits in product((False, True), repeat=len(atoms)):
            asg = dict(zip(atoms, bits))
            if all(evaluate(g, asg) == p2 for g, p2 in comp):
                ok = True
                break
        if not ok:
            return False
    return True
