"""hsa — repository-specific static analyser for DataONEorg/hashstore.

Everything here decides properties from the *source text* of /repo/src/hashstore
(parsed with the standard-library ``ast`` module).  Nothing under analysis is imported
or executed.  See /verif/DESIGN.md.
"""

REPO = "/repo"
SRC_REL = "src/hashstore"
VERSION = "1"
