"""Symbolic terms (analysis A2) and their path classes.

A *term* is a nested tuple whose first element is a tag.  A *value* is a frozenset of
terms (the possible values of an expression at a program point).  Terms are built only by
the constructors below so that structurally equal things are equal tuples.
"""

from __future__ import annotations

MAXSET = 12


class AnalysisError(Exception):
    """The analysis cannot proceed soundly (exit code 2, never a verdict)."""


# ----------------------------------------------------------------------------------------
# constructors
# ----------------------------------------------------------------------------------------
ROOT = ("root",)
NONE = ("const", None)
TRUE = ("const", True)
FALSE = ("const", False)


def C(v):
    return ("const", v)


def P(name):
    return ("param", name)


def is_const(t):
    return isinstance(t, tuple) and t and t[0] == "const"


def V(*terms):
    return frozenset(terms)


EMPTY = frozenset()


def tag(t):
    return t[0] if isinstance(t, tuple) and t else None


# configuration dimension: is the store root an absolute path?  With a relative store_path
# (e.g. "rel_store") os.path.join / pathlib do NOT discard what precedes a later component
# that is itself built from the root, so the prefix is doubled.
RELATIVE_ROOT = [False]


def J(parts):
    """join(parts) — flattened; a rooted later part restarts the path (os.path.join /
    pathlib semantics for absolute components: idiom (1) of DESIGN §2.2 A2)."""
    flat = []
    for p in parts:
        if is_const(p) and isinstance(p[1], str) and p[1].startswith("/") and flat:
            # os.path.join / pathlib: an absolute component discards everything before it
            flat = [("abspath", p[1])]
            continue
        restart = is_rooted(p) and not (RELATIVE_ROOT[0] and flat)
        if tag(p) == "join":
            if restart:
                flat = list(p[1])
            else:
                flat.extend(p[1])
        elif restart:
            flat = [p]
        else:
            flat.append(p)
    if len(flat) == 1 and (is_rooted(flat[0]) or tag(flat[0]) in ("sibling", "tmpname")):
        return flat[0]
    return ("join", tuple(flat))


def is_rooted(t):
    """True when the term denotes an absolute location inside the store."""
    tg = tag(t)
    if tg == "root":
        return True
    if tg == "join":
        return bool(t[1]) and is_rooted(t[1][0])
    if tg in ("sibling", "parent"):
        return is_rooted(t[1])
    if tg == "tmpname":
        return True
    return False


def cat(parts):
    flat = []
    for p in parts:
        if tag(p) == "cat":
            flat.extend(p[1])
        else:
            flat.append(p)
    # merge adjacent constants
    out = []
    for p in flat:
        if out and is_const(p) and is_const(out[-1]) and isinstance(p[1], str) and isinstance(out[-1][1], str):
            out[-1] = C(out[-1][1] + p[1])
        else:
            out.append(p)
    # widening: an accumulation in a loop (`n += len(x)`, `s += piece`) repeats the same non-constant part; a run of it
    # is kept as the part followed by one ("rep", part) marker, so that the loop reaches a fixed point
    wid = []
    for p in out:
        if not is_const(p) and wid and (wid[-1] == p or wid[-1] == ("rep", p)):
            if wid[-1] == p:
                wid.append(("rep", p))
            continue
        wid.append(p)
    out = wid
    if len(out) == 1:
        return out[0]
    return ("cat", tuple(out))


def parent(t):
    if tag(t) == "join" and len(t[1]) >= 2 and tag(t[1][-1]) != "spread":
        return J(t[1][:-1])
    # an ancestor chain is widened at depth 3: parent^3(x) and everything above is "some ancestor of x"
    # (a loop that climbs the tree - `while ...: p = os.path.dirname(p)` - then reaches a fixed point)
    if tag(t) == "parent" and tag(t[1]) == "parent" and tag(t[1][1]) == "parent":
        return t
    return ("parent", t)


def basename(t):
    if tag(t) == "join" and len(t[1]) >= 2:
        last = t[1][-1]
        if tag(last) != "spread":
            return last
    return ("name", t)


def contains(t, pred):
    """Does any sub-term satisfy pred?"""
    if pred(t):
        return True
    if isinstance(t, tuple):
        for x in t[1:]:
            if isinstance(x, tuple):
                if tag(x) is not None and isinstance(x[0], str) and contains(x, pred):
                    return True
                # tuples of terms
                for y in x:
                    if isinstance(y, tuple) and contains(y, pred):
                        return True
            elif isinstance(x, frozenset):
                for y in x:
                    if contains(y, pred):
                        return True
    return False


def subterms(t):
    out = [t]
    if isinstance(t, tuple):
        for x in t[1:]:
            if isinstance(x, tuple):
                if x and isinstance(x[0], str) and x[0] in _TAGS:
                    out.extend(subterms(x))
                else:
                    for y in x:
                        if isinstance(y, tuple):
                            out.extend(subterms(y))
                        elif isinstance(y, frozenset):
                            for z in y:
                                out.extend(subterms(z))
            elif isinstance(x, frozenset):
                for y in x:
                    out.extend(subterms(y))
    return out


_TAGS = {
    "const", "param", "root", "join", "spread", "shard", "H", "cat", "content", "handle",
    "tmpfile", "tmpname", "sibling", "parent", "name", "item", "dictlit", "tuple", "list",
    "listof", "elem", "listdir", "listed", "inst", "selfattr", "callres", "exc", "unknown",
    "probe", "strop", "opt", "int", "self", "hashof", "dictzip", "cmp", "not", "and", "or",
    "stem", "suffix", "bool", "setof", "readlines", "hexdigests", "hashobjs", "module",
    "class", "func", "walk", "abspath", "orelse", "iattr", "hexdigest", "closing", "obj", "line", "slice", "arith", "rep", "direntry", "lambda", "relto",
}


def is_summary(t):
    """Terms standing for *many* concrete files (listing elements) — never tracked by the
    may-typestate analyses (gone / pending), which would otherwise confuse two iterations."""
    return contains(t, lambda x: tag(x) in ("listed", "elem", "listdir"))


# ----------------------------------------------------------------------------------------
# pretty printing (for reports / evidence samples)
# ----------------------------------------------------------------------------------------
def show(t):
    tg = tag(t)
    if isinstance(t, tuple) and t and not isinstance(t[0], str):
        return "(" + ", ".join(show(x) if isinstance(x, (tuple, frozenset)) else repr(x) for x in t) + ")"
    if t == ():
        return "()"
    if tg is None:
        if isinstance(t, frozenset):
            return "{" + ", ".join(sorted(show(x) for x in t)) + "}"
        return repr(t)
    if tg == "const":
        return repr(t[1])
    if tg == "param":
        return t[1]
    if tg == "root":
        return "ROOT"
    if tg == "join":
        return "/".join(show(x) for x in t[1])
    if tg == "spread":
        return "*" + show(t[1])
    if tg == "shard":
        return f"shard({show(t[1])})"
    if tg == "H":
        return f"H({show(t[1])})" if t[2] is None else f"H({show(t[1])};{show(t[2])})"
    if tg == "cat":
        return "+".join(show(x) for x in t[1])
    if tg == "content":
        return f"content({show(t[1])})"
    if tg == "handle":
        return f"handle({show(t[1])},{t[2]})"
    if tg == "tmpname":
        return f"tmpname({show(t[1])})"
    if tg == "tmpfile":
        return f"tmpfile({show(t[1])})"
    if tg == "sibling":
        return f"sibling({show(t[1])},{show(t[2])})"
    if tg == "parent":
        return f"parent({show(t[1])})"
    if tg == "name":
        return f"name({show(t[1])})"
    if tg == "item":
        return f"{show(t[1])}[{show(t[2])}]"
    if tg == "selfattr":
        return f"self.{t[1]}"
    if tg == "listed":
        return f"listed({show(t[1])})"
    if tg == "elem":
        return f"elem({show(t[1])})"
    if tg == "opt":
        return f"args.{t[1]}"
    if tg == "int":
        return f"int({show(t[1])})"
    if tg == "strop":
        return f"{show(t[2])}.{t[1]}()"
    if tg == "callres":
        return f"<{t[1]}@{t[2]}>"
    if tg == "dictzip":
        return "digestmap"
    if tg == "probe":
        return f"{t[1]}({show(t[2])})"
    return tg + "(" + ",".join(show(x) if isinstance(x, (tuple, frozenset)) else repr(x) for x in t[1:]) + ")"


def showv(v):
    return "{" + ", ".join(sorted(show(t) for t in v)) + "}"


# ----------------------------------------------------------------------------------------
# path classes
# ----------------------------------------------------------------------------------------
ENTITY_DIRS = {
    ("objects",): "objects",
    ("metadata",): "metadata",
    ("refs",): "refs",
    ("refs", "pids"): "refs/pids",
    ("refs", "cids"): "refs/cids",
}


class PathClass(tuple):
    """(cls, key) with helpers; key is a term (or tuple of terms for META)."""

    __slots__ = ()

    def __new__(cls, name, key=None, extra=None):
        return tuple.__new__(cls, (name, key, extra))

    @property
    def cls(self):
        return self[0]

    @property
    def key(self):
        return self[1]

    @property
    def extra(self):
        return self[2]

    def __repr__(self):
        if self[1] is None:
            return self[0]
        k = show(self[1])
        if self[2] is not None:
            return f"{self[0]}({k},{show(self[2])})"
        return f"{self[0]}({k})"


def _const_prefix(parts):
    """leading constant string components after ROOT"""
    out = []
    for p in parts:
        if is_const(p) and isinstance(p[1], str):
            out.append(p[1])
        else:
            break
    return tuple(out)


def classify(t):
    """Map a term to its PathClass.  Never raises; unknown shapes give UNKNOWN."""
    tg = tag(t)
    if tg == "join":
        parts = t[1]
        if not parts:
            return PathClass("UNKNOWN")
        head = parts[0]
        if tag(head) == "root":
            rest = parts[1:]
            pre = _const_prefix(rest)
            tail = rest[len(pre):]
            # split "refs/pids" given as one constant
            norm = []
            for c in pre:
                norm.extend([x for x in c.split("/") if x])
            pre = tuple(norm)
            if not tail:
                if pre == ("hashstore.yaml",):
                    return PathClass("CONFIG")
                if pre == ("python_client.log",):
                    return PathClass("CLIENTLOG")
                if pre in ENTITY_DIRS:
                    return PathClass("ENTITYDIR", C(ENTITY_DIRS[pre]))
                if len(pre) >= 2 and pre[-1] == "tmp" and pre[:-1] in ENTITY_DIRS:
                    return PathClass("TMPDIR", C(ENTITY_DIRS[pre[:-1]]))
                if not pre:
                    return PathClass("ROOTDIR")
                return PathClass("UNKNOWN")
            ent = ENTITY_DIRS.get(pre)
            if ent is None:
                return PathClass("UNKNOWN")
            first = tail[0]
            if tag(first) == "spread" and tag(first[1]) == "shard":
                k = first[1][1]
                more = tail[1:]
                if is_rooted(k) or tag(k) in ("join", "tmpname", "sibling"):
                    # a *path* was sharded: the primary candidate of the overloaded look-up
                    # helpers when they are handed a ready-made path; names no file
                    return PathClass("BOGUS")
                if ent == "objects" and not more:
                    return PathClass("OBJ", k)
                if ent == "refs/cids" and not more:
                    return PathClass("CIDREFS", k)
                if ent == "refs/pids" and not more:
                    if tag(k) == "H":
                        return PathClass("PIDREFS", k[1], k[2])
                    return PathClass("PIDREFS_UNHASHED", k)
                if ent == "metadata":
                    if tag(k) == "H":
                        if not more:
                            return PathClass("METADIR", k[1], k[2])
                        if len(more) == 1:
                            return PathClass("META", k[1], more[0])
                    else:
                        return PathClass("META_UNHASHED", k)
                return PathClass("UNKNOWN")
            # un-sharded thing directly below an entity directory: the "relative path"
            # convenience fall-back of the two look-up helpers
            return PathClass("FALLBACK", C(ent), J(list(tail)))
        if tag(head) == "abspath":
            return PathClass("OUTSIDE", C(head[1]))
        if tag(head) in ("tmpname",):
            return PathClass("UNKNOWN")
        # relative join
        return PathClass("RELATIVE")
    if tg == "root":
        return PathClass("ROOTDIR")
    if tg == "tmpname":
        d = classify(t[1])
        if d.cls == "TMPDIR":
            return PathClass("TMP", d.key)
        return PathClass("TMP_ELSEWHERE", t[1])
    if tg == "sibling":
        base = classify(t[1])
        nm = t[2]
        if contains(nm, lambda x: is_const(x) and isinstance(x[1], str) and "_delete" in x[1]):
            return PathClass("MARKER", base, t[1])
        return PathClass("SIBLING", base, t[1])
    if tg == "parent":
        base = classify(t[1])
        return PathClass("PARENTDIR", base)
    if tg == "abspath":
        return PathClass("OUTSIDE", C(t[1]))
    if tg == "param":
        return PathClass("EXTERNAL", t)
    if tg == "opt":
        return PathClass("EXTERNAL", t)
    if tg == "handle":
        return classify(t[1])
    if tg == "cat":
        # string concatenation producing a path (client: store_path + "/hashstore.yaml")
        parts = t[1]
        if parts and tag(parts[0]) == "root" and all(is_const(p) for p in parts[1:]):
            s = "".join(p[1] for p in parts[1:])
            comps = [C(x) for x in s.split("/") if x]
            return classify(J([ROOT] + comps))
        return PathClass("STRING")
    if tg in ("content", "item", "H", "selfattr", "shard", "callres", "elem", "listed", "const", "strop", "iattr", "hexdigest"):
        # an identifier / digest / string used *as is* where a path is expected
        return PathClass("RAWID", t)
    return PathClass("UNKNOWN")


PERMANENT = ("OBJ", "META", "PIDREFS", "CIDREFS", "CONFIG")


def sort_of(t):
    """'path' for rooted locations, 'id' for identifiers / digests / names."""
    if is_rooted(t):
        return "path"
    if tag(t) in ("join",):
        return "relpath"
    return "id"


def substitute(t, mapping):
    """replace sub-terms according to mapping (term -> term), re-normalising joins"""
    if t in mapping:
        return mapping[t]
    if isinstance(t, frozenset):
        return frozenset(substitute(x, mapping) for x in t)
    if not isinstance(t, tuple) or not t:
        return t
    tg = t[0]
    if tg == "join":
        return J([substitute(x, mapping) for x in t[1]])
    if tg == "cat":
        return cat([substitute(x, mapping) for x in t[1]])
    if isinstance(tg, str) and tg in _TAGS:
        out = [tg]
        for x in t[1:]:
            if isinstance(x, tuple) and x and isinstance(x[0], str) and x[0] in _TAGS:
                out.append(substitute(x, mapping))
            elif isinstance(x, frozenset):
                out.append(frozenset(substitute(y, mapping) for y in x))
            elif isinstance(x, tuple):
                out.append(tuple(substitute(y, mapping) if isinstance(y, (tuple, frozenset)) else y for y in x))
            else:
                out.append(x)
        return tuple(out)
    return t
