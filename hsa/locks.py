"""A3 — lock model.  Lock classes are *discovered* from the shape of the code:

  acquire   with C: while K in L: C.wait() ; L.append(K)        (or  C.wait_for(lambda: K not in L) ; L.append(K))
  release   with C: L.remove(K) ; C.notify() / C.notify_all()
  try-claim with C: if K in L: raise X

(logging statements are ignored).  C must denote an attribute the constructor binds to a
``*.Condition(...)`` — either written as ``self.<attr>`` or, when the interpreter supplies a
resolver, a local that can only hold such attributes (``cond, locked = self._pid_sync()``).
Everything that deviates from these shapes is recorded as an anomaly for the C07/C08/C12
rules rather than silently accepted."""

from __future__ import annotations

import ast
import re

from .terms import AnalysisError

SUFFIX = re.compile(r"_(mp|th)$")


def stem(attr: str) -> str:
    return SUFFIX.sub("", attr)


def suffix(attr: str):
    m = SUFFIX.search(attr)
    return m.group(1) if m else None


def may_raise_formatting(node) -> bool:
    """`fmt % args` where fmt is not a literal: the format string contains run-time data (an identifier with a `%` in it
    raises ValueError / TypeError) - unlike f-strings and the logger's own lazy `%s` arguments"""
    return any(isinstance(x, ast.BinOp) and isinstance(x.op, ast.Mod) and not (isinstance(x.left, ast.Constant) and isinstance(x.left.value, str))
               for x in ast.walk(node))


LOG_METHODS = ("debug", "info", "warning", "warn", "error", "critical", "exception", "log")


def is_logger_expr(e) -> bool:
    """an expression that denotes a logger: the logging module, the store's logger, logging.getLogger(...), or a choice of these"""
    t = ast.unparse(e)
    if t in ("logging", "self.fhs_logger") or t.startswith("logging.getLogger("):
        return True
    if isinstance(e, ast.IfExp):
        return is_logger_expr(e.body) and is_logger_expr(e.orelse)
    return False


def is_logger_assign(st) -> bool:
    return isinstance(st, ast.Assign) and len(st.targets) == 1 and isinstance(st.targets[0], ast.Name) and is_logger_expr(st.value)


def _logger_local(name_node) -> bool:
    """a local name that, in its function, is only ever assigned logger expressions (`wait_logger = self.fhs_logger`)"""
    fn = name_node
    while fn is not None and not isinstance(fn, (ast.FunctionDef, ast.AsyncFunctionDef)):
        fn = getattr(fn, "_parent", None)
    if fn is None:
        return False
    if name_node.id in {a.arg for a in fn.args.args + fn.args.kwonlyargs}:
        return False
    stores = [a for a in ast.walk(fn) if isinstance(a, (ast.Assign, ast.AugAssign, ast.AnnAssign, ast.For, ast.With, ast.NamedExpr))
              and any(isinstance(x, ast.Name) and x.id == name_node.id and isinstance(x.ctx, ast.Store) for x in ast.walk(a))]
    if stores:
        return all(is_logger_assign(a) for a in stores)
    # a module-level logger (`_LOGGER = logging.getLogger(__name__)`): bound at the top level of the module only, to a logger
    mod = fn
    while mod is not None and not isinstance(mod, ast.Module):
        mod = getattr(mod, "_parent", None)
    if mod is None:
        return False
    cache = getattr(mod, "_module_loggers", None)
    if cache is None:
        # names bound at the top level of the module to a logger, and bound nowhere else in the module (no `global` rebinding either)
        cand = {a.targets[0].id for a in mod.body if is_logger_assign(a)}
        for a in ast.walk(mod):
            if isinstance(a, ast.Global):
                cand -= set(a.names)
            elif isinstance(a, ast.Name) and isinstance(a.ctx, ast.Store) and a.id in cand:
                par = getattr(a, "_parent", None)
                if not (par in mod.body and is_logger_assign(par)):
                    cand.discard(a.id)
        cache = mod._module_loggers = frozenset(cand)
    return name_node.id in cache


def logger_names_in(stmts) -> frozenset:
    """the names, among those used in these (parent-linked) statements, that only ever hold a logger"""
    return frozenset(x.id for s in stmts for x in ast.walk(s) if isinstance(x, ast.Name) and isinstance(x.ctx, ast.Load) and _logger_local(x))


def is_logging_stmt(st, loggers=frozenset()) -> bool:
    if isinstance(st, ast.Expr) and isinstance(st.value, ast.Call):
        f = ast.unparse(st.value.func)
        if may_raise_formatting(st.value):
            return False
        if f.startswith("logging.") or f.startswith("self.fhs_logger.") or f == "print":
            return True
        fn_ = st.value.func
        return isinstance(fn_, ast.Attribute) and fn_.attr in LOG_METHODS and isinstance(fn_.value, ast.Name) \
            and (fn_.value.id in loggers or _logger_local(fn_.value))
    if isinstance(st, ast.Expr) and isinstance(st.value, ast.Constant):
        return True
    if isinstance(st, ast.If) and not any(isinstance(x, (ast.Call, ast.Await, ast.NamedExpr)) for x in ast.walk(st.test)):
        # a branch (on a plain flag) whose every arm only logs
        return all(is_logging_stmt(b, loggers) for b in st.body) and all(is_logging_stmt(b, loggers) for b in st.orelse)
    return False


def self_attr(node):
    if isinstance(node, ast.Attribute) and isinstance(node.value, ast.Name) and node.value.id == "self":
        return node.attr
    return None


class SyncTable:
    """Which attributes of FileHashStore are conditions / locks / claim lists, per
    constructor branch."""

    def __init__(self, program, cls="FileHashStore"):
        self.conditions = {}  # attr -> (ctor dotted, arg attr or None, lineno)
        self.locks = {}  # attr -> (ctor dotted, lineno)
        self.lists = {}  # attr -> (ctor text, lineno)
        init = program.method(cls, "__init__")
        if init is None:
            raise AnalysisError(f"{cls}.__init__ not found")
        self.init = init
        # (the constructor and the helper methods that only ever run as part of it)
        for n in [x for f_ in program.ctor_funcs(cls) for x in ast.walk(f_.node)]:
            if isinstance(n, ast.Assign) and len(n.targets) == 1:
                a = self_attr(n.targets[0])
                if a is None:
                    continue
                v = n.value
                if isinstance(v, ast.Call):
                    f = ast.unparse(v.func)
                    if f.endswith(".Condition") or f == "Condition":
                        arg = self_attr(v.args[0]) if v.args else None
                        self.conditions[a] = (f, arg, n.lineno)
                    elif f.endswith(".Lock") or f.endswith(".RLock") or f in ("Lock", "RLock"):
                        self.locks[a] = (f, n.lineno)
                    elif f.endswith(".list") or f == "list":
                        self.lists[a] = (ast.unparse(v), n.lineno)
                elif isinstance(v, ast.List) and not v.elts and (a.endswith("_mp") or a.endswith("_th")):
                    self.lists[a] = ("[]", n.lineno)

    def classes(self):
        return sorted({stem(a) for a in self.lists})


def _name(aset):
    return "/".join(sorted(aset)) if aset else None


def _common(aset, fn):
    vals = {fn(a) for a in aset} if aset else set()
    return vals.pop() if len(vals) == 1 else None


class LockOp:
    def __init__(self, node, func):
        self.node = node
        self.func = func
        self.kind = "unknown"  # acquire / release / tryclaim / unknown
        self.cond_set = None  # condition attrs the `with` may be on
        self.list_set = None  # claim list attrs (of append / remove / membership)
        self.key = None  # ast expr appended / removed / tested
        self.wait_key = None
        self.wait_list_set = None
        self.wait_cond_set = None
        self.notify_cond_set = None
        self.raise_node = None
        self.dynamic = False
        self.conditional = False  # release written as `if K in L: L.remove(K)`
        self.wait_raises = []     # raise statements inside the wait loop (a timed wait that gives up): leave WITHOUT the claim
        self.anomalies = []  # (code, message, node)

    @property
    def cond(self):
        return _name(self.cond_set)

    @property
    def list(self):
        return _name(self.list_set)

    @property
    def wait_list(self):
        return _name(self.wait_list_set)

    @property
    def wait_cond(self):
        return _name(self.wait_cond_set)

    @property
    def notify_cond(self):
        return _name(self.notify_cond_set)

    @property
    def cls(self):
        return _common(self.list_set, stem) if self.list_set else None

    @property
    def mode(self):
        return _common(self.cond_set, suffix) if self.cond_set else None

    def __repr__(self):
        return f"<LockOp {self.kind} {self.cls} key={ast.unparse(self.key) if self.key is not None else None} @{self.node.lineno}>"


def match_with(with_node: ast.With, func, sync: SyncTable, resolve=None):
    """Return a LockOp when the `with` is on a condition attribute, else None.
    `resolve(node)` may map a non-`self.x` expression to the set of attributes it can denote."""

    def attrs(node):
        a = self_attr(node)
        if a is not None:
            return frozenset([a])
        if resolve is not None:
            r = resolve(node)
            if r:
                return frozenset(r)
        return None

    if len(with_node.items) != 1:
        return None
    cset = attrs(with_node.items[0].context_expr)
    if not cset:
        return None
    if not all(c in sync.conditions for c in cset):
        if all(c in sync.locks for c in cset):
            op = LockOp(with_node, func)
            op.cond_set = cset
            op.anomalies.append(("raw-lock", f"`with self.{_name(cset)}` uses a bare lock, not the claim-list idiom", with_node))
            return op
        return None
    op = LockOp(with_node, func)
    op.cond_set = cset
    op.dynamic = self_attr(with_node.items[0].context_expr) is None

    def membership(test):
        if isinstance(test, ast.Compare) and len(test.ops) == 1 and isinstance(test.ops[0], (ast.In, ast.NotIn)):
            l = attrs(test.comparators[0])
            if l and all(x in sync.lists for x in l):
                return test.left, l, isinstance(test.ops[0], ast.NotIn)
        return None

    def method_call(st, names):
        if isinstance(st, ast.Expr) and isinstance(st.value, ast.Call) and isinstance(st.value.func, ast.Attribute):
            f = st.value.func
            if f.attr in names:
                x = attrs(f.value)
                if x:
                    return x, f.attr, st.value.args
        return None

    seen_remove = False
    for st in with_node.body:
        if is_logging_stmt(st):
            continue
        # `C.wait_for(lambda: K not in L)` is the wait loop `while K in L: C.wait()` (threading and multiprocessing conditions alike);
        # with a timeout its result says whether the identifier is free: `if not C.wait_for(..., t): raise X` is a timed wait that
        # gives up, a bare statement with a timeout goes on to claim an identifier that may still be claimed
        wf_call, wf_raise = None, None
        if isinstance(st, ast.Expr) and isinstance(st.value, ast.Call):
            wf_call = st.value
        elif isinstance(st, ast.If) and not st.orelse and isinstance(st.test, ast.UnaryOp) and isinstance(st.test.op, ast.Not) \
                and isinstance(st.test.operand, ast.Call):
            rest = [x for x in st.body if not is_logging_stmt(x)]
            if len(rest) == 1 and isinstance(rest[0], ast.Raise):
                wf_call, wf_raise = st.test.operand, rest[0]
        if wf_call is not None and isinstance(wf_call.func, ast.Attribute) and wf_call.func.attr == "wait_for" and attrs(wf_call.func.value) \
                and wf_call.args and isinstance(wf_call.args[0], ast.Lambda) and not wf_call.args[0].args.args:
            mem = membership(wf_call.args[0].body)
            timed = len(wf_call.args) > 1 or any(k.arg == "timeout" for k in wf_call.keywords)
            if mem is None or not mem[2]:
                op.anomalies.append(("foreign", "wait_for() predicate is not `K not in <claim list>`", st))
            else:
                op.wait_key, op.wait_list_set = mem[0], mem[1]
                op.wait_cond_set = attrs(wf_call.func.value)
                if op.wait_cond_set != cset:
                    op.anomalies.append(("wait-other-cond", f"waits on self.{_name(op.wait_cond_set)} while holding self.{_name(cset)}", st))
                if wf_raise is not None:
                    op.wait_raises.append(wf_raise)
                elif timed:
                    op.anomalies.append(("no-wait", "timed wait_for() whose result is ignored: the claim is appended whether or not the identifier is free", st))
            continue
        if isinstance(st, ast.While):
            mem = membership(st.test)
            if mem is None or mem[2]:
                op.anomalies.append(("foreign", "while loop under the condition's mutex is not a claim wait loop", st))
                continue
            op.wait_key, op.wait_list_set = mem[0], mem[1]
            waited = False
            for b in st.body:
                if is_logging_stmt(b):
                    continue
                # a timed wait that gives up:  if not C.wait(t): <logging>; raise X
                if isinstance(b, ast.If) and not b.orelse and isinstance(b.test, ast.UnaryOp) and isinstance(b.test.op, ast.Not) \
                        and isinstance(b.test.operand, ast.Call) and isinstance(b.test.operand.func, ast.Attribute) \
                        and b.test.operand.func.attr == "wait" and attrs(b.test.operand.func.value) == cset:
                    rest = [x for x in b.body if not is_logging_stmt(x)]
                    if len(rest) == 1 and isinstance(rest[0], ast.Raise):
                        waited = True
                        op.wait_cond_set = cset
                        op.wait_raises.append(rest[0])
                        continue
                mc = method_call(b, ("wait",))
                if mc:
                    waited = True
                    op.wait_cond_set = mc[0]
                    if mc[0] != cset:
                        op.anomalies.append(("wait-other-cond", f"waits on self.{_name(mc[0])} while holding self.{_name(cset)}", b))
                else:
                    op.anomalies.append(("foreign", "statement in wait loop is neither logging nor wait()", b))
                    op.wait_raises += [r for r in ast.walk(b) if isinstance(r, ast.Raise)]
                    if any(isinstance(c, ast.Call) and isinstance(c.func, ast.Attribute) and c.func.attr in ("wait", "wait_for") for c in ast.walk(b)):
                        waited = True
                        op.wait_cond_set = cset
            if not waited or st.orelse:
                op.anomalies.append(("no-wait", "claim loop does not wait()", st))
            continue
        if isinstance(st, ast.If):
            mem = membership(st.test)
            body = [b for b in st.body if not is_logging_stmt(b)]
            if mem and not mem[2] and body and isinstance(body[-1], ast.Raise) and len(body) == 1 and not st.orelse:
                op.kind = "tryclaim"
                op.key, op.list_set = mem[0], mem[1]
                op.raise_node = body[-1]
                continue
            rm = [method_call(b, ("remove",)) for b in body]
            if mem and not mem[2] and not st.orelse and rm and rm[0] and all(
                    method_call(b, ("remove", "notify", "notify_all")) for b in body):
                # `if K in L: L.remove(K)` - a release that tolerates a claim which is not held
                x, _m, args = rm[0]
                seen_remove = True
                op.kind = "release"
                op.conditional = True
                op.list_set, op.key = x, (args[0] if args else None)
                if x != mem[1] or (args and ast.dump(args[0]) != ast.dump(mem[0])):
                    op.anomalies.append(("foreign", "conditional release tests another key / list than it removes", st))
                for b in body[1:]:
                    mc2 = method_call(b, ("notify", "notify_all"))
                    if mc2:
                        op.notify_cond_set = mc2[0]
                continue
            if mem and any(method_call(b, ("wait",)) for b in body):
                op.wait_key, op.wait_list_set = mem[0], mem[1]
                op.wait_cond_set = cset
                op.anomalies.append(("wait-not-loop", "wait() guarded by `if`, not re-checked in a `while` loop", st))
                continue
            op.anomalies.append(("foreign", "if statement under the condition's mutex is not a try-claim", st))
            continue
        mc = method_call(st, ("append", "remove", "notify", "notify_all", "wait"))
        if mc:
            x, m, args = mc
            if m == "append":
                op.kind = "acquire"
                op.list_set, op.key = x, (args[0] if args else None)
            elif m == "remove":
                seen_remove = True
                op.kind = "release"
                op.list_set, op.key = x, (args[0] if args else None)
            elif m in ("notify", "notify_all"):
                op.notify_cond_set = x
                if x != cset:
                    op.anomalies.append(("notify-other-cond", f"notifies self.{_name(x)} while holding self.{_name(cset)}", st))
                if not seen_remove:
                    op.anomalies.append(("notify-before-remove", "notify() precedes remove()", st))
            elif m == "wait":
                op.anomalies.append(("wait-not-loop", "wait() outside a `while K in L` loop", st))
            continue
        op.anomalies.append(("foreign", f"statement under the condition's mutex: {ast.unparse(st)[:60]}", st))
    if op.kind == "acquire":
        if op.wait_key is None:
            op.anomalies.append(("no-wait", "claim appended without waiting for the identifier to be free", with_node))
        else:
            if ast.dump(op.wait_key) != ast.dump(op.key):
                op.anomalies.append(
                    ("wait-key-differs",
                     f"waits while `{ast.unparse(op.wait_key)}` is claimed but claims `{ast.unparse(op.key)}`", with_node))
            if op.wait_list_set != op.list_set:
                op.anomalies.append(
                    ("wait-list-differs", f"waits on self.{op.wait_list} but appends to self.{op.list}", with_node))
    if op.kind == "release":
        if op.notify_cond_set is None:
            op.anomalies.append(("no-notify", "release does not notify the condition", with_node))
    if op.kind in ("acquire", "release", "tryclaim") and op.list_set is not None:
        ls, cs = {suffix(a) for a in op.list_set}, {suffix(a) for a in cset}
        if ls != cs:
            op.anomalies.append(("mode-mix", f"self.{op.list} used under self.{op.cond} (different synchronisation mode)", with_node))
        if not all(a in sync.lists for a in op.list_set):
            op.anomalies.append(("unknown-list", f"self.{op.list} is not a claim list created by the constructor", with_node))
        if op.cls is None:
            op.anomalies.append(("mixed-class", f"claim lists of different classes used together: self.{op.list}", with_node))
        # the condition and the list must belong together (same constructor group)
        if _common(cset, stem) is None:
            op.anomalies.append(("mixed-class", f"conditions of different classes used together: self.{op.cond}", with_node))
    return op


def all_lockops(program, sync: SyncTable, cls="FileHashStore"):
    out = []
    for f in program.funcs.values():
        if f.cls != cls:
            continue
        for n in ast.walk(f.node):
            if isinstance(n, ast.With):
                owner = n
                while owner is not None and not isinstance(owner, (ast.FunctionDef, ast.AsyncFunctionDef)):
                    owner = getattr(owner, "_parent", None)
                if owner is not f.node:
                    continue
                op = match_with(n, f, sync)
                if op is not None:
                    out.append(op)
    return out
