"""Rules for C01, C02, C06, C13, C14, C17, C20 (data flow, error discipline, configuration, client)."""
