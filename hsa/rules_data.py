"""Rules for C01, C02, C06, C13, C14, C17, C20 (data flow, error discipline, configuration, client)."""

from __future__ import annotations

import ast
import builtins
import hashlib
import io

from . import facts as F
from .engine import Analysis, CLS, PUBLIC_API
from .loader import norm
from .report import Rule
from .rules_common import rules_of
from .rules_common import (call_arg, digest_checked_before_delete, MUT, primary, base_class, site_text, site_func, site_loc, resource_hits, func_nodes,
                           ends_in_raise)
from .rules_paths import Q, ALL_MODES, all_events, probe_atoms, probe_first, probe_last
from .terms import AnalysisError, show, showv, tag, C, P, V, NONE, EMPTY, classify, subterms

DOC_DEFAULTS = ["md5", "sha1", "sha256", "sha384", "sha512"]  # hashstore.py docstring of store_object


def root_name(node):
    """the Name at the bottom of a chain of attribute accesses / method calls"""
    chain = []
    while True:
        if isinstance(node, ast.Call):
            node = node.func
        elif isinstance(node, ast.Attribute):
            chain.append(node.attr)
            node = node.value
        else:
            break
    return (node.id if isinstance(node, ast.Name) else None), list(reversed(chain))


def enclosing(node, types):
    n = getattr(node, "_parent", None)
    while n is not None:
        if isinstance(n, types):
            yield n
        n = getattr(n, "_parent", None)


def isinstance_types(fnode):
    """the type names a function tests its arguments against with isinstance (a tuple of types counts as each of them)"""
    out = set()
    for c in ast.walk(fnode):
        if isinstance(c, ast.Call) and norm(c.func) == "isinstance" and len(c.args) == 2:
            for e in (c.args[1].elts if isinstance(c.args[1], ast.Tuple) else [c.args[1]]):
                out.add(norm(e))
    return sorted(out)


def in_body(node, stmts):
    return any(node is x for s in stmts for x in ast.walk(s))


# =======================================================================================
def check_C01(A: Analysis, tier):
    rules = []
    ra = Rule("C01", "C01.a", "every attribute Stream uses on the wrapped object belongs to the interface of the "
              "stream type _check_arg_data admits, or is guarded (hasattr / try catching AttributeError)", floor=5)
    cad = A.impl("_check_arg_data")
    admitted = isinstance_types(cad.node)
    if not any("Buffered" in a or "IOBase" in a for a in admitted):
        raise AnalysisError(f"_check_arg_data no longer admits a stream type (admits {admitted})")
    iface = set()
    for a in admitted:
        if a.startswith("io."):
            t = getattr(io, a[3:], None)
            if t is not None:
                iface |= set(dir(t))
    st_cls = A.p.classes.get("Stream")
    if st_cls is None:
        raise AnalysisError("class Stream not found")
    for f in [fn for fn in A.p.funcs.values() if fn.cls == "Stream"]:
        for n in ast.walk(f.node):
            if not isinstance(n, ast.Attribute) or not isinstance(n.ctx, ast.Load):
                continue
            wrapped = (isinstance(n.value, ast.Name) and n.value.id == "obj" and f.name == "__init__") or norm(n.value) == "self._obj"
            if not wrapped:
                continue
            ra.ob()
            ra.inst(f"{f.qual}: {norm(n)}")
            if n.attr in iface:
                continue
            guarded = False
            for t in enclosing(n, ast.Try):
                if in_body(n, t.body):
                    for h in t.handlers:
                        names = ["BaseException"] if h.type is None else [norm(e) for e in (h.type.elts if isinstance(h.type, ast.Tuple) else [h.type])]
                        if any(x in ("AttributeError", "Exception", "BaseException") for x in names):
                            guarded = True
            for i in enclosing(n, ast.If):
                if in_body(n, i.body) and any(isinstance(c, ast.Call) and norm(c.func) == "hasattr" and len(c.args) == 2
                                              and getattr(c.args[1], "value", None) == n.attr for c in ast.walk(i.test)):
                    guarded = True
            if not guarded:
                ra.fail(f, n, f"`.{n.attr}` is not part of {admitted}'s interface and is not guarded for AttributeError: an in-memory "
                        "buffered stream passes the argument check and then fails", A.p.loc(f, n))
    rules.append(ra)

    rb = Rule("C01", "C01.b", "Stream closes only what it opened, restores the caller's position otherwise, and every "
              "Stream constructed in the package is wrapped in `with closing(...)`", floor=6)
    init = A.p.func("Stream.__init__")
    close = A.p.func("Stream.close")
    # (i) pos = None only where Stream itself opened the object
    for n in func_nodes(init, ast.Assign):
        if len(n.targets) == 1 and isinstance(n.targets[0], ast.Name) and n.targets[0].id == "pos":
            rb.ob()
            rb.inst(f"Stream.__init__: {norm(n)}")
            is_none = isinstance(n.value, ast.Constant) and n.value.value is None
            blk = getattr(n, "_parent", None)
            sibs = blk.body if in_body(n, getattr(blk, "body", [])) else getattr(blk, "orelse", [])
            opened = any(isinstance(c, ast.Call) and norm(c.func) in ("io.open", "open") for s in sibs for c in ast.walk(s))
            if is_none and not opened:
                rb.fail(init, n, "position is recorded as None (= 'we opened it') on a branch that did not open the object: "
                        "the caller's stream would be closed", A.p.loc(init, n))
            if not is_none and opened:
                rb.fail(init, n, "a file Stream opened itself is treated as caller-owned: it is never closed", A.p.loc(init, n))
    # (ii)/(iii) close()
    closes = [c for c in ast.walk(close.node) if isinstance(c, ast.Call) and norm(c.func) == "self._obj.close"]
    seeks = [c for c in ast.walk(close.node) if isinstance(c, ast.Call) and norm(c.func) == "self._obj.seek"]
    rb.inst(f"Stream.close: {len(closes)} close(), {len(seeks)} seek()")
    rb.ob(2)
    for c in closes:
        ok = False
        for i in enclosing(c, ast.If):
            subj, is_none = none_test(i.test)
            if subj == "self._pos" and ((is_none and in_body(c, i.body)) or (not is_none and in_body(c, i.orelse))):
                ok = True
        if not ok:
            rb.fail(close, c, "the wrapped object is closed although the caller may own it (not under `self._pos is None`)", A.p.loc(close, c))
    if not closes:
        rb.fail(close, "self._obj.close()", "a file opened by Stream is never closed", A.p.loc(close, close.node))
    if not any(norm(c.args[0]) == "self._pos" for c in seeks if c.args):
        rb.fail(close, "self._obj.seek(self._pos)", "the caller's stream is not returned to its original offset on close()", A.p.loc(close, close.node))
    # (iv) construction sites
    for f in A.p.funcs.values():
        for n in func_nodes(f, ast.Assign):
            if isinstance(n.value, ast.Call) and norm(n.value.func) == "Stream" and isinstance(n.targets[0], ast.Name):
                v = n.targets[0].id
                rb.ob()
                rb.inst(f"{f.qual}: {norm(n)}")
                blk = getattr(n, "_parent", None)
                lst = None
                for fld in ("body", "orelse", "finalbody"):
                    if any(n is x for x in getattr(blk, fld, []) or []):
                        lst = getattr(blk, fld)
                rest = lst[[i for i, x in enumerate(lst) if x is n][0] + 1:] if lst else []
                nxt = [s for s in rest if not (isinstance(s, ast.Expr) and isinstance(s.value, ast.Call)
                                               and norm(s.value.func).startswith(("self.fhs_logger.", "logging.")))]
                ok = nxt and isinstance(nxt[0], ast.With) and any(norm(i.context_expr) == f"closing({v})" for i in nxt[0].items)
                if ok:
                    later = [x for s in nxt[1:] for x in ast.walk(s) if isinstance(x, ast.Name) and x.id == v]
                    ok = not later
                if not ok:
                    rb.fail(f, n, f"Stream `{v}` is not used exclusively inside `with closing({v})`: the file it opened (or the "
                            "caller's offset) is not restored on every path", A.p.loc(f, n))

    # (v) the file Stream opens (and tests) for a path argument is the argument itself
    for e in ("store_object", "store_metadata"):
        it = A.api(e, "th")
        given = set()
        for c in it.calls:
            if c["callee"] == "Stream.__init__" and "argmap" in c:
                given |= c["argmap"].get("obj", EMPTY)
        for ev in it.events:
            if ev.func.qual == "Stream.__init__" and ev.prim in ("open", "io.open", "os.path.isfile"):
                rb.ob()
                rb.inst(f"{e}: Stream.__init__:{ev.line} {ev.prim}({showv(ev.paths[0])[:40]})")
                odd = [t for t in ev.paths[0] if t not in given]
                if odd:
                    rb.fail(ev.func, ev.node, f"Stream {ev.prim}s `{show(odd[0])}`, a string derived from the path it was given, not the path itself: "
                            "a lexically normalised path can name a different file (`dir-symlink/../x`)", A.p.loc(ev.func, ev.node))
    rules.append(rb)

    re1 = Rule("C01", "C01.e", "the temp writer writes every element it hashes: the write of a stream element to the temp file and the hash update "
               "with the same element sit under the same conditions, and the temp handle is only ever appended to (no seek / truncate)", floor=2)
    for m in ("th",):
        it = A.api("store_object", m)
        writes = [ev for ev in it.events if ev.kind == "WRITE" and ev.prim == "file.write" and len(ev.paths) > 1
                  and any(c.cls == "TMP" for c in ev.classes[0]) and any(tag(t) == "elem" for t in ev.paths[1])]
        ups = [ev for ev in it.events if ev.kind == "HASHUPDATE" and any(tag(t) == "elem" for t in ev.paths[0])]
        for u in ups:
            re1.ob()
            re1.inst(f"{u.func.qual}:{u.line} hash update with a stream element [{u.ctx[1].split('.')[-1] if len(u.ctx) > 1 else ''}]")
            same = [w for w in writes if w.ctx == u.ctx and w.paths[1] == u.paths[0]]
            if not same:
                re1.fail(u.func, u.node, "a stream element is hashed but never written to the temp file: the stored bytes are not the hashed bytes",
                         A.p.loc(u.func, u.node))
            elif not any({(f_, pol) for f_, pol in w.facts} == {(f_, pol) for f_, pol in u.facts} for w in same):
                w = same[0]
                extra = [f_ for f_, pol in w.facts if (f_, pol) not in u.facts] or [f_ for f_, pol in u.facts if (f_, pol) not in w.facts]
                re1.fail(w.func, w.node, f"the write of a stream element is conditional ({str(extra[0])[:80] if extra else '?'}) where hashing it is not (or vice versa): "
                         "some elements are hashed but not stored, so the file at objects/<digest> does not have that digest", A.p.loc(w.func, w.node))
        for e in ("store_object", "store_metadata"):
            for ev in A.api(e, m).events:
                if ev.kind == "SETLEN" and any(c.cls == "TMP" for c in ev.classes[0]):
                    re1.ob()
                    re1.fail(ev.func, ev.node, f"{ev.prim} sets the LENGTH of the temp file being written (a reservation is not a hint: the file is as long as "
                             "announced, whatever is written): a stream shorter than the announced size is published zero-padded under the digest of the "
                             "unpadded content, and the size check passes", A.p.loc(ev.func, ev.node))
                if ev.kind == "HANDLEOP" and ev.prim in ("file.seek", "file.truncate") and any(c.cls == "TMP" for c in ev.classes[0]):
                    re1.ob()
                    re1.fail(ev.func, ev.node, f"{ev.prim} on the temp file being written: the writer must append every element; moving the position leaves "
                             "holes or drops a tail", A.p.loc(ev.func, ev.node))
    rules.append(re1)

    from .rules_paths import check_C15
    c15g = [r for r in rules_of(A, "C15") if r.rid == "C15.g"][0]
    rf1 = Rule("C01", "C01.f", "what retrieve_object opens for a cid is the file at objects/<shard(cid)> whenever that exists (shared with C15.g): a "
               "lower-priority candidate of the overloaded look-up never shadows the stored object", floor=c15g.floor)
    rf1.instances, rf1.nontrivial, rf1.obligations = list(c15g.instances), set(c15g.nontrivial), c15g.obligations
    for f in c15g.findings:
        rf1.fail(f.func, f.construct, f.message, f.loc, f.detail)
    rules.append(rf1)

    rd1 = Rule("C01", "C01.d", "Stream.__iter__ rewinds the wrapped object to offset 0, yields every chunk it reads until an empty "
               "read, yields nothing else, and restores the caller's offset afterwards; _cast_to_bytes is the identity on bytes "
               "and UTF-8 encoding otherwise", floor=3)
    itf = A.p.func("Stream.__iter__")
    loops = func_nodes(itf, (ast.While, ast.For))
    yields = [n for n in ast.walk(itf.node) if isinstance(n, (ast.Yield, ast.YieldFrom))]
    if len(loops) != 1 or not yields:
        raise AnalysisError("Stream.__iter__ is not in the single read-loop form the rule reads")
    lp = loops[0]
    seeks0 = [c for c in ast.walk(itf.node) if isinstance(c, ast.Call) and norm(c.func) == "self._obj.seek" and c.args
              and isinstance(c.args[0], ast.Constant) and c.args[0].value == 0 and c.lineno < lp.lineno]
    rd1.ob(4)
    rd1.inst(f"Stream.__iter__: rewind {'present' if seeks0 else 'MISSING'}; {len(yields)} yield(s)")
    if not seeks0:
        rd1.fail(itf, "self._obj.seek(0)", "the stream is not rewound to offset 0 before it is read: a stream handed over at a non-zero offset is stored "
                 "(and hashed) only from that offset on", A.p.loc(itf, itf.node))
    yname = yields[0].value.id if isinstance(yields[0], ast.Yield) and isinstance(yields[0].value, ast.Name) else None
    reads = [a for a in ast.walk(lp) if isinstance(a, ast.Assign) and isinstance(a.value, ast.Call) and isinstance(a.targets[0], ast.Name)
             and a.targets[0].id == yname]
    walrus = [w for w in ast.walk(lp.test) if isinstance(w, ast.NamedExpr) and isinstance(w.value, ast.Call) and w.target.id == yname] \
        if isinstance(lp, ast.While) else []
    if len(reads) + len(walrus) == 0 or (walrus and reads):
        raise AnalysisError("Stream.__iter__: expected `x = <read call>` assignment(s) (or `while x := <read call>`) producing the yielded chunk")
    if walrus:
        var = walrus[0].target.id
        reads = [walrus[0]]
    else:
        var = reads[0].targets[0].id
    for rd_ in reads:
        rcall = rd_.value
        if norm(rcall.func) != "self._obj.read":
            rd1.fail(itf, rcall, f"chunks are obtained with `{norm(rcall.func)}(...)`, not `self._obj.read(...)` of the wrapped object: other read primitives "
                     "(read1, readline, a cached bound method) may return short blocks or different data", A.p.loc(itf, rcall))
        rarg = rcall.args[0] if rcall.args else None
        if rarg is not None and not (norm(rarg) == "self._buffer_size" or isinstance(rarg, (ast.Name, ast.Attribute))):
            rd1.fail(itf, rd_, f"chunks are read with size `{norm(rarg)}`, not the stream's buffer size", A.p.loc(itf, rd_))
    if isinstance(lp, ast.While) and not (walrus and lp.test is walrus[0]) and not (isinstance(lp.test, ast.Constant) and lp.test.value):
        # the loop's own condition is a second way out: only an empty read says that the source is exhausted (a length taken from the
        # file's name, a chunk counter, ... can disagree with what the handle delivers)
        rd1.fail(itf, f"while {norm(lp.test)}", f"the read loop also ends when `{norm(lp.test)}` turns false, not only on an empty read: the content is cut "
                 "wherever that condition disagrees with the bytes the handle delivers (a stream whose name is a shorter file, a compressed stream)",
                 A.p.loc(itf, lp))
    if len(yields) != 1 or not (isinstance(yields[0], ast.Yield) and isinstance(yields[0].value, ast.Name) and yields[0].value.id == var
                                and any(yields[0] is x for x in ast.walk(lp))):
        rd1.fail(itf, yields[0], "what the stream yields is not exactly each chunk it read (once)", A.p.loc(itf, yields[0]))
    brk = [i for i in ast.walk(lp) if isinstance(i, ast.If) and norm(i.test) in (f"not {var}", f"{var} == b''", f"len({var}) == 0")
           and any(isinstance(b, ast.Break) for b in i.body)]
    if walrus and lp.test is walrus[0]:
        brk = [lp]   # `while x := read(...)`: the loop condition itself is the empty-read test
    rd1.inst(f"Stream.__iter__: loop ends on `{norm(brk[0].test) if brk else '?'}`")
    if not brk:
        rd1.fail(itf, lp, "the read loop does not end exactly when a read returns no data", A.p.loc(itf, lp))
    elif brk[0].lineno > yields[0].lineno and False:
        pass
    # an early exit other than the empty-read break truncates the content
    extra = [n for n in ast.walk(lp) if isinstance(n, (ast.Break, ast.Return)) and not any(n is x for b in brk if b is not lp for x in ast.walk(b))]
    if extra:
        rd1.fail(itf, extra[0], "the read loop can stop before the end of the stream", A.p.loc(itf, extra[0]))
    rest = [c for c in ast.walk(itf.node) if isinstance(c, ast.Call) and norm(c.func) == "self._obj.seek" and c.args and norm(c.args[0]) == "self._pos"
            and c.lineno > lp.lineno]
    def _restored(i):
        subj, is_none = none_test(i.test)
        if subj != "self._pos":
            return False
        arm = i.orelse if is_none else i.body
        return any(rest[0] is x for b in arm for x in ast.walk(b))

    if not rest or not any(_restored(i) for i in func_nodes(itf, ast.If)):
        rd1.fail(itf, "self._obj.seek(self._pos)", "after reading, a caller-owned stream is not returned to its original offset", A.p.loc(itf, itf.node))
    cb = A.impl("_cast_to_bytes")
    pn = cb.node.args.args[0].arg
    rets = [r for r in ast.walk(cb.node) if isinstance(r, ast.Return)]
    convs = [c for c in ast.walk(cb.node) if isinstance(c, ast.Call) and (norm(c.func) == "bytes" or (isinstance(c.func, ast.Attribute) and c.func.attr == "encode"))]
    rd1.inst(f"_cast_to_bytes: conversions {[norm(c) for c in convs]}")
    okc = bool(rets) and all(isinstance(r.value, ast.Name) and r.value.id == pn or r.value in convs for r in rets)
    for c in convs:
        enc = [a.value for a in list(c.args) + [k.value for k in c.keywords] if isinstance(a, ast.Constant) and isinstance(a.value, str)]
        if not enc or enc[0].lower().replace("-", "") != "utf8" or not any(isinstance(x, ast.Name) and x.id == pn for x in ast.walk(c)):
            okc = False
    guard = [i for i in func_nodes(cb, ast.If) if "isinstance" in norm(i.test) and "bytes" in norm(i.test)]
    if not okc or not convs or not guard:
        rd1.fail(cb, "bytes(text, 'utf8')", "_cast_to_bytes is no longer `bytes as is, anything else UTF-8 encoded`: what is written/hashed is not the content supplied",
                 A.p.loc(cb, cb.node))
    rules.append(rd1)

    rc = Rule("C01", "C01.c", "one pass: the same chunk is written to the temp file and fed to every hash object of "
              "the per-call algorithm list; cid = digest under the store algorithm = the object's address; "
              "ObjectMetadata fields are wired in order", floor=5)
    for m in ("th",):
        it = A.api("store_object", m)
        wf = Q("_write_to_tmp_file_and_get_hex_digests")
        writes = [e for e in it.events if e.kind == "WRITE" and e.prim == "file.write" and e.func.qual == wf]
        upd = [e for e in it.events if e.kind == "HASHUPDATE" and e.func.qual == wf]
        news = [e for e in it.events if e.kind == "HASHNEW" and e.func.qual == wf]
        f = A.p.func(wf)
        rc.ob(3)
        wsites = {(e.line) for e in writes}
        usites = {(e.line) for e in upd}
        rc.inst(f"{wf}: write sites {sorted(wsites)}, hash update sites {sorted(usites)}")
        if len(wsites) != 1 or len(usites) != 1:
            rc.fail(f, "write/update in the stream loop", f"expected exactly one write and one hash update per chunk, found "
                    f"{len(wsites)} / {len(usites)}", A.p.loc(f, f.node))
        for w in writes:
            for u in upd:
                if w.ctx == u.ctx and w.paths[1] != u.paths[0]:
                    rc.fail(f, u.node, f"the hash objects are fed {showv(u.paths[0])[:60]} but the temp file receives {showv(w.paths[1])[:60]}: "
                            "the digest is not the digest of the stored bytes", A.p.loc(f, u.node))
            if not all(tag(t) == "elem" and tag(t[1]) == "inst" and t[1][1] == "Stream" for t in w.paths[1]):
                rc.fail(f, w.node, "what is written to the temp file is not the chunk read from the Stream", A.p.loc(f, w.node))
        # hash update must be inside a loop over the full hash-object list
        for u in upd[:1]:
            loops = [l for l in enclosing(u.node, ast.For)]
            ok = False
            for l in loops:
                tgt = norm(l.iter)
                defs = [a for a in func_nodes(f, ast.Assign) if norm(a.targets[0]) == tgt and isinstance(a.value, ast.ListComp)]
                if defs and any(norm(c.func) == "hashlib.new" for c in ast.walk(defs[0].value) if isinstance(c, ast.Call)):
                    ok = True
                    rc.inst(f"{wf}: every element of `{tgt}` updated per chunk")
            rc.ob()
            if not ok:
                rc.fail(f, u.node, "the hash update is not inside a loop over the complete list of hash objects: some digests miss chunks", A.p.loc(f, u.node))
        # digest map = zip(algorithm list, hexdigests of the hash objects built from that list)
        for c in it.calls:
            if c["callee"] == wf and c.get("ret"):
                for t in c["ret"]:
                    if tag(t) != "tuple":
                        continue
                    dm = t[1][0]
                    rc.ob()
                    rc.inst(f"{wf}: returns ({showv(dm)[:40]}, tmp name, size)")
                    for d in dm:
                        if tag(d) != "dictzip":
                            rc.fail(f, "hex_digest_dict", "the digest map is not dict(zip(algorithms, hexdigests))", A.p.loc(f, f.node))
                            continue
                        algs = d[3]  # elements of the key list at the time of zip()
                        hexs = set()
                        for x in d[2]:
                            hexs |= (x[1] if tag(x) == "listof" else {x})
                        ok = bool(hexs) and all(tag(h) == "hexdigest" for h in hexs) and {h[1] for h in hexs if tag(h) == "hexdigest"} == set(algs)
                        built = set()
                        for e in news:
                            if e.ctx[:len(c["ctx"])] == c["ctx"]:
                                built |= e.paths[0]
                        newok = built == set(algs)
                        if not ok or not newok:
                            rc.fail(f, "dict(zip(...))", "digest values are not the hexdigests of hash objects built, in order, from the same "
                                    "algorithm list the keys come from: a digest would be reported under another algorithm's name", A.p.loc(f, f.node))
                    if not all(tag(x) == "tmpname" for x in t[1][1]) or not all(tag(x) == "probe" and x[1] == "getsize" for x in t[1][2]):
                        rc.fail(f, "return", "the (digests, temp name, size) tuple layout changed", A.p.loc(f, f.node))
        # cid and address
        for k, l, st, rv in it.exits:
            if k != "return":
                continue
            for t in rv:
                if tag(t) != "obj":
                    continue
                fields = dict(t[2])
                rc.ob()
                rc.inst(f"store_object returns ObjectMetadata(cid={showv(fields.get('cid', EMPTY))[:50]})")
                cid = fields.get("cid", EMPTY)
                okc = all(tag(x) == "item" and tag(x[1]) == "dictzip" and x[2] == ("selfattr", "algorithm") for x in cid) and cid
                oks = all(tag(x) == "probe" and x[1] == "getsize" and all(classify(p_).cls == "TMP" for p_ in x[2]) for x in fields.get("obj_size", EMPTY))
                okh = all(tag(x) == "dictzip" for x in fields.get("hex_digests", EMPTY))
                if not okc:
                    rc.fail(Q("store_object"), "ObjectMetadata.cid", f"the returned cid is {showv(cid)[:80]}, not the digest under the store algorithm")
                if not oks:
                    rc.fail(Q("store_object"), "ObjectMetadata.obj_size", "the returned size is not the measured size of the written temp file")
                if not okh:
                    rc.fail(Q("store_object"), "ObjectMetadata.hex_digests", "the returned hex_digests is not the digest map")
        for ev in it.events:
            if ev.kind == "RENAME" and ev.func.qual == Q("_move_and_get_checksums"):
                for c in primary(ev.classes[1]):
                    if c.cls == "OBJ":
                        rc.ob()
                        rc.inst(f"object published at {c!r}")
                        if not (tag(c.key) == "item" and tag(c.key[1]) == "dictzip" and c.key[2] == ("selfattr", "algorithm")):
                            rc.fail(ev.func, ev.node, f"the object is published at {c!r}: not the address of its digest under the store algorithm",
                                    A.p.loc(ev.func, ev.node))
    rules.append(rc)
    return rules


# =======================================================================================
MUTATORS = {"append", "extend", "insert", "remove", "pop", "clear", "sort", "reverse", "add", "update", "discard"}
FRESH_CALLS = {"list", "set", "sorted", "tuple", "frozenset", "dict", "copy.copy", "copy.deepcopy"}


def none_test(test):
    """(subject text, True) for `X is None`, (subject, False) for `X is not None`, through any number of `not`"""
    flip = False
    while isinstance(test, ast.UnaryOp) and isinstance(test.op, ast.Not):
        test, flip = test.operand, not flip
    if isinstance(test, ast.Compare) and len(test.ops) == 1 and isinstance(test.ops[0], (ast.Is, ast.IsNot)) \
            and isinstance(test.comparators[0], ast.Constant) and test.comparators[0].value is None:
        return norm(test.left), isinstance(test.ops[0], ast.Is) != flip
    return None, None



def const_collection(A, func, node):
    """resolve a Name / self.attr / Class.attr / literal to a list of constants (list, tuple,
    set) or a {const: const} dict; None when it is not a literal collection"""
    if isinstance(node, (ast.List, ast.Tuple, ast.Set)) and all(isinstance(e, ast.Constant) for e in node.elts):
        return [e.value for e in node.elts]
    if isinstance(node, ast.Dict) and node.keys and all(isinstance(k, ast.Constant) and isinstance(v, ast.Constant) for k, v in zip(node.keys, node.values)):
        return {k.value: v.value for k, v in zip(node.keys, node.values)}
    if isinstance(node, ast.Call) and not node.keywords and len(node.args) == 1 and isinstance(node.func, ast.Name) \
            and node.func.id in ("list", "tuple"):
        t = const_collection(A, func, node.args[0])
        return list(t) if t is not None else None
    if isinstance(node, ast.Call) and not node.args and isinstance(node.func, ast.Attribute) and node.func.attr == "keys":
        t = const_collection(A, func, node.func.value)
        return list(t) if isinstance(t, dict) else None
    if isinstance(node, ast.Name):
        f = func
        while f is not None:
            defs = [a.value for a in ast.walk(f.node) if isinstance(a, ast.Assign) and len(a.targets) == 1
                    and isinstance(a.targets[0], ast.Name) and a.targets[0].id == node.id]
            if len(defs) == 1:
                return const_collection(A, f, defs[0])
            f = f.parent
        return None
    if isinstance(node, ast.Attribute) and isinstance(node.value, ast.Name) and node.value.id in ("self", "cls", CLS):
        v = A.p.class_attr_assigns(CLS).get(node.attr)
        return const_collection(A, func, v) if v is not None else None
    return None


def find_translation_table(A):
    """the DataONE -> hashlib name table used by _set_default_algorithms (local or class level)"""
    sda = A.p.func(Q("_set_default_algorithms"))
    cands = []
    for f in [sda] + [g for g in A.p.funcs.values() if g.parent is sda]:
        for n in ast.walk(f.node):
            if isinstance(n, ast.Subscript):
                t = const_collection(A, f, n.value)
                if isinstance(t, dict):
                    cands.append(t)
            if isinstance(n, ast.Dict):
                t = const_collection(A, f, n)
                if isinstance(t, dict):
                    cands.append(t)
    cands = [t for t in cands if all(isinstance(v, str) for v in t.values())]
    return (sda, cands[0]) if cands else (sda, None)


def find_yaml_default_list(A):
    """the default algorithm list _build_hashstore_yaml_string writes to hashstore.yaml"""
    b = A.p.func(Q("_build_hashstore_yaml_string"))
    for n in ast.walk(b.node):
        if isinstance(n, ast.Dict):
            for k, v in zip(n.keys, n.values):
                if isinstance(k, ast.Constant) and k.value == "store_default_algo_list":
                    t = const_collection(A, b, v)
                    if isinstance(t, list):
                        return t
    return None


def find_accepted_algorithms(A):
    """the collection the store algorithm is tested against in _write_properties"""
    wp = A.p.func(Q("_write_properties"))
    for n in ast.walk(wp.node):
        if isinstance(n, ast.Compare) and len(n.ops) == 1 and isinstance(n.ops[0], (ast.In, ast.NotIn)) and "algorithm" in norm(n.left):
            t = const_collection(A, wp, n.comparators[0])
            if isinstance(t, list):
                return wp, t, n
    return wp, None, None


def binary_open_rule(A, rule):
    seen = set()
    for it in A.all_api_runs():
        for ev in it.events:
            if not (ev.prim in ("open", "io.open") or ev.prim.endswith(".open")) or not ev.classes:
                continue
            cls = {c.cls for c in primary(ev.classes[0])} & {"OBJ", "META", "EXTERNAL"}
            tmpobj = any(c.cls == "TMP" and c.key in (C("objects"), C("metadata")) for c in primary(ev.classes[0]))
            if not cls and not tmpobj:
                continue
            k = (ev.func.qual, ev.line)
            if k in seen:
                continue
            seen.add(k)
            rule.ob()
            mode = ev.extra.get("mode") or "r"
            rule.inst(f"{ev.func.qual}:{ev.line} open(..., {mode!r}) of {sorted(cls) or ['TMP']}")
            if "b" not in str(mode):
                rule.fail(site_func(ev), site_text(ev), f"{'/'.join(sorted(cls) or ['TMP'])} is opened in text mode ({mode!r}): what is read is decoded text with "
                          "translated line ends, not the stored bytes - a digest computed from it is wrong for CRLF / CR content and the read fails for "
                          "non-UTF-8 content", site_loc(A, ev), {"entry": it.entry})


def check_C02(A: Analysis, tier):
    rules = []
    ra = Rule("C02", "C02.a", "no function mutates the instance/class algorithm tables or the required-key table, "
              "directly or through a local alias", floor=3)
    protected = {"default_algo_list", "other_algo_list", "property_required_keys"}
    definers = {Q("_set_default_algorithms")}

    def prot_expr(n):
        return isinstance(n, ast.Attribute) and n.attr in protected and isinstance(n.value, ast.Name) and n.value.id in ("self", CLS, "cls")

    for f in [fn for fn in A.p.funcs.values() if fn.cls == CLS]:
        aliases = {}
        nodes = sorted([n for n in ast.walk(f.node) if hasattr(n, "lineno")], key=lambda n: (n.lineno, n.col_offset))
        reads = [n for n in nodes if prot_expr(n)]
        for n in reads:
            ra.inst(f"{f.qual}:{n.lineno} reads {norm(n)}")
        for n in nodes:
            if isinstance(n, ast.Assign) and len(n.targets) == 1 and isinstance(n.targets[0], ast.Name):
                if prot_expr(n.value) or (isinstance(n.value, ast.Name) and n.value.id in aliases):
                    aliases[n.targets[0].id] = n
                else:
                    aliases.pop(n.targets[0].id, None)
            target = None
            what = None
            if isinstance(n, ast.Call) and isinstance(n.func, ast.Attribute) and n.func.attr in MUTATORS:
                target, what = n.func.value, f".{n.func.attr}()"
            elif isinstance(n, ast.AugAssign):
                target, what = n.target, "augmented assignment"
            elif isinstance(n, (ast.Assign, ast.Delete)):
                for t in (n.targets if isinstance(n, (ast.Assign, ast.Delete)) else []):
                    if isinstance(t, ast.Subscript):
                        target, what = t.value, "item assignment/deletion"
            if target is None:
                continue
            ra.ob()
            is_alias = isinstance(target, ast.Name) and target.id in aliases
            if (prot_expr(target) or is_alias) and f.qual not in definers:
                src = aliases[target.id] if is_alias else target
                ra.fail(f, src if is_alias else n,
                        f"`{norm(target)}` is {'an alias of' if is_alias else ''} a shared algorithm/key table and is mutated by {what} "
                        f"at line {n.lineno}: the set of reported digests then depends on earlier calls", A.p.loc(f, n))
    rules.append(ra)

    rb = Rule("C02", "C02.b", "caller-supplied algorithm names reach hashlib and the digest map only after "
              "_clean_algorithm", floor=3)
    algparams = {P("additional_algorithm"), P("checksum_algorithm"), P("algorithm")}
    for e in ("store_object", "delete_if_invalid_object", "get_hex_digest", "_computehash"):
        # _computehash is summarised where it is called (an intrinsic), so its own body is interpreted once as an entry
        it = A.api(e, "th") if e != "_computehash" else A.run(Q(e), "th")
        for ev in it.events:
            if ev.kind == "HASHNEW":
                rb.ob()
                rb.inst(f"{ev.func.qual}:{ev.line} hashlib.new({showv(ev.paths[0])[:50]})")
                for t in ev.paths[0]:
                    if t in algparams or (tag(t) == "elem" and any(x in algparams for x in subterms(t) if False)):
                        rb.fail(site_func(ev), site_text(ev), f"hashlib.new receives the caller's spelling `{show(t)}` without _clean_algorithm",
                                site_loc(A, ev))
        if e == "_computehash":
            continue
        # digest-map look-ups / membership with a raw name
        seen = set()
        for ev in it.events:
            for f, pol in ev.facts:
                for a in F.atoms_of(f):
                    if a in seen:
                        continue
                    seen.add(a)
                    if a[0] == "cmp" and a[1] == "in" and any(t in algparams for t in a[2]) and \
                            any(tag(t) in ("dictzip", "classlist", "iattr") or t == ("selfattr", "default_algo_list") for t in a[3]):
                        rb.ob()
                        rb.fail(Q(e), f"{show(next(iter(a[2])))} in <table>", "membership of an un-normalised algorithm name is tested against an "
                                "algorithm table / digest map: another spelling of a supported name would miss", "")
        for k, l, st, rv in it.exits:
            for t in rv:
                for x in subterms(t):
                    if tag(x) == "item" and x[2] in algparams:
                        rb.ob()
                        rb.fail(Q(e), "digest map subscript", f"the digest map is subscripted with the caller's raw spelling {show(x[2])}")
        # the list handed to the writer contains only cleaned names
        for c in it.calls:
            if c["callee"] == Q("_refine_algorithm_list"):
                rb.ob()
                rb.inst(f"{e}: _refine_algorithm_list({', '.join(showv(v)[:40] for v in c['args'][1:])})")
                for v in c["args"][1:]:
                    for t in v:
                        if t in algparams:
                            rb.fail(c["func"], c["node"], f"the raw algorithm argument {show(t)} is added to the list of digests to compute",
                                    A.p.loc(c["func"], c["node"]))
    rules.append(rb)

    rc = Rule("C02", "C02.c", "the algorithm tables agree: yaml default list -> translation table -> hashlib names; the "
              "five documented defaults; other_algo_list within hashlib's guaranteed set; _clean_algorithm checks both tables", floor=4)
    sda, trans = find_translation_table(A)
    if not trans:
        raise AnalysisError("_set_default_algorithms: translation table not found")
    b = A.p.func(Q("_build_hashstore_yaml_string"))
    ylist = find_yaml_default_list(A)
    if ylist is None:
        raise AnalysisError("_build_hashstore_yaml_string: store_default_algo_list not found")
    other = [e.value for e in A.p.class_attr_assigns(CLS)["other_algo_list"].elts]
    rc.inst(f"yaml default list {ylist}")
    rc.inst(f"translation table {trans}")
    rc.inst(f"other_algo_list {other}")
    rc.ob(4)
    miss = [a for a in ylist if a not in trans]
    if miss:
        rc.fail(b, "store_default_algo_list", f"default algorithms {miss} written to hashstore.yaml cannot be translated by _set_default_algorithms", A.p.loc(b, b.node))
    bad = [v for v in list(trans.values()) + other if v not in hashlib.algorithms_guaranteed]
    if bad:
        rc.fail(sda, "algorithm tables", f"{bad} are not hashlib-guaranteed algorithm names", A.p.loc(sda, sda.node))
    if sorted(trans[a] for a in ylist if a in trans) != sorted(DOC_DEFAULTS):
        rc.fail(b, "store_default_algo_list", f"the default digest set {sorted(trans.get(a, a) for a in ylist)} differs from the documented "
                f"{DOC_DEFAULTS}", A.p.loc(b, b.node))
    if set(other) & set(trans.values()):
        rc.fail(CLS, "other_algo_list", "an algorithm is both default and additional")
    ca = A.p.func(Q("_clean_algorithm"))
    tested = {n.attr for n in ast.walk(ca.node) if isinstance(n, ast.Attribute) and n.attr in ("default_algo_list", "other_algo_list")}
    rc.inst(f"_clean_algorithm validates against {sorted(tested)}")
    if tested != {"default_algo_list", "other_algo_list"}:
        rc.fail(ca, "support check", f"_clean_algorithm validates against {sorted(tested)} only", A.p.loc(ca, ca.node))
    rules.append(rc)

    re2 = Rule("C02", "C02.e", "_clean_algorithm decides nothing from the caller's spelling case-sensitively: every string "
               "predicate on the raw name is applied to a case-folded form (or is a per-character digit test)", floor=2)
    ca = A.p.func(Q("_clean_algorithm"))
    pname = ca.node.args.args[1].arg
    raw_names = {pname}
    for n in ast.walk(ca.node):
        if isinstance(n, ast.Attribute) and isinstance(n.ctx, ast.Load):
            rn, chain = root_name(n)
            if rn in raw_names and n.attr in ("lower", "casefold", "upper", "replace", "strip", "startswith", "endswith", "find", "index", "count", "split", "isdigit", "isalpha"):
                parent = getattr(n, "_parent", None)
                if isinstance(parent, ast.Call) and parent.func is n:
                    re2.ob()
                    re2.inst(f"_clean_algorithm: {norm(parent)[:60]}")
                    folded = any(c in ("lower", "casefold", "upper") for c in chain[:-1]) or n.attr in ("lower", "casefold", "upper")
                    if n.attr in ("startswith", "endswith", "find", "index", "count", "split") and not folded:
                        re2.fail(ca, parent, f"`{norm(parent)}` inspects the caller's spelling case-sensitively: an upper/mixed-case spelling of a supported "
                                 "algorithm takes another cleaning branch and is rejected or mis-named", A.p.loc(ca, parent))
        if isinstance(n, ast.Compare):
            for side in [n.left] + n.comparators:
                rn, chain = root_name(side)
                if rn in raw_names and not any(c in ("lower", "casefold", "upper") for c in chain) and isinstance(side, (ast.Name, ast.Subscript)) \
                        and any(isinstance(o, ast.Constant) and isinstance(o.value, str) for o in [n.left] + n.comparators):
                    re2.ob()
                    re2.inst(f"_clean_algorithm: {norm(n)[:60]}")
                    re2.fail(ca, n, f"`{norm(n)}` compares the caller's spelling case-sensitively with a literal", A.p.loc(ca, n))
    if not any(isinstance(c, ast.Call) and isinstance(c.func, ast.Attribute) and c.func.attr in ("lower", "casefold") for c in ast.walk(ca.node)):
        re2.fail(ca, "lower()", "_clean_algorithm no longer case-folds the name", A.p.loc(ca, ca.node))
    rules.append(re2)

    from .rules_locks import shared_state_rule
    rg2 = Rule("C02", "C02.g", "_refine_algorithm_list returns the defaults plus EACH requested algorithm that is in the other list, whatever the "
               "other request is (four scenario runs: checksum / additional algorithm in the other list or not)", floor=4)
    rf_ = A.p.func(Q("_refine_algorithm_list"))
    pnames = [a.arg for a in rf_.node.args.args if a.arg != "self"]

    def other_member(which):
        def asm(atom):
            if atom[0] == "isnone" and atom[1] in tuple(V(P(x)) for x in pnames):
                return False
            if atom[0] == "cmp" and atom[1] == "in" and atom[2] and any(tag(t) == "classlist" and t[2] == "other_algo_list" for t in atom[3]):
                for x in pnames:
                    if all(P(x) in subterms(t) for t in atom[2]) and all(tag(t) == "param" for t in atom[2]):
                        return which[x]
            return None
        return asm

    if len(pnames) == 2:
        for va in (True, False):
            for vb in (True, False):
                which = {pnames[0]: va, pnames[1]: vb}
                it_r = A.run(Q("_refine_algorithm_list"), "th", tagk=f"other-{va}-{vb}", assume=other_member(which))
                rets = [(st_, rv_) for k_, l_, st_, rv_ in it_r.exits if k_ == "return"]
                rg2.ob()
                rg2.inst(f"_refine_algorithm_list with {pnames[0]} in other list: {va}, {pnames[1]}: {vb} -> {len(rets)} return(s)")
                if not rets:
                    rg2.fail(rf_, "return", "_refine_algorithm_list does not return in a scenario with two supported algorithms", A.p.loc(rf_, rf_.node))
                for st_, rv_ in rets:
                    els = set()
                    for t in rv_:
                        for x in subterms(t):
                            if tag(x) == "list":
                                els |= st_.lists.get(x, EMPTY)
                    flat = {y for e_ in els for y in subterms(e_)} | {y for t in rv_ for y in subterms(t)}
                    # appended elements of a copy made by slicing / list(...) that the interpreter tracks under the copy's own term
                    for (lt, els2) in st_.lists.items():
                        if any(lt in subterms(t) or t == lt for t in rv_):
                            flat |= {y for e_ in els2 for y in subterms(e_)}
                    for x in pnames:
                        if which[x] and P(x) not in flat:
                            rg2.fail(rf_, f"{x} requested", f"with {pnames[0]} {'in' if va else 'not in'} the other list and {pnames[1]} {'in' if vb else 'not in'} it, the returned "
                                     f"list lacks the requested `{x}`: its digest is silently missing from the digest map", A.p.loc(rf_, rf_.node))
                    if not any(tag(y) == "selfattr" and y[1] == "default_algo_list" for y in flat):
                        rg2.fail(rf_, "defaults", "the returned list does not start from the default algorithm list", A.p.loc(rf_, rf_.node))
    rules.append(rg2)

    _src = [r for r in rules_of(A, "C01") if r.rid == "C01.e"][0]
    _sh = Rule("C02", "C02.h", 'the digests reported are those of the bytes stored: the temp writer writes every element it hashes (shared with C01.e) ...', floor=_src.floor)
    _sh.instances, _sh.nontrivial, _sh.obligations = list(_src.instances), set(_src.nontrivial), _src.obligations
    for f in _src.findings:
        if True:
            _sh.fail(f.func, f.construct, f.message, f.loc, f.detail)
    rules.append(_sh)
    _src = [r for r in rules_of(A, "C09") if r.rid == "C09.e"][0]
    _sh = Rule("C02", "C02.i", '... through a buffered writer, so that a short write cannot go unnoticed (shared with C09.e)', floor=_src.floor)
    _sh.instances, _sh.nontrivial, _sh.obligations = list(_src.instances), set(_src.nontrivial), _src.obligations
    for f in _src.findings:
        if True:
            _sh.fail(f.func, f.construct, f.message, f.loc, f.detail)
    rules.append(_sh)
    rk2 = Rule("C02", "C02.k", "every open of a data object, a metadata document or a caller's data path is binary: a text-mode handle decodes the "
               "bytes and translates line ends (CRLF / CR content hashes and reads back as something else; bytes that are not UTF-8 raise)", floor=3)
    binary_open_rule(A, rk2)
    rules.append(rk2)
    rj2 = Rule("C02", "C02.j", "the functions that compute and report digests read no local that some path leaves unbound (an empty object never "
               "enters the read loop; shared with C08.g): a digest is returned for every content, the empty one included", floor=9)
    from .rules_locks import unbound_reads_rule
    unbound_reads_rule(A, rj2, only_funcs={A.impl_q(n_) for n_ in ("_computehash", "get_hex_digest", "_write_to_tmp_file_and_get_hex_digests",
                                                                  "_refine_algorithm_list", "_clean_algorithm", "_verify_object_information")})
    rules.append(rj2)
    rs2 = Rule("C02", "C02.f", "nothing a call computes is stored in the shared store object (shared with C07.g): results cannot depend on "
               "other calls through instance state", floor=10)
    shared_state_rule(A, rs2)
    rules.append(rs2)

    rd = Rule("C02", "C02.d", "the digest map's keys are exactly the list _refine_algorithm_list returned for this "
              "call's own arguments", floor=2)
    it = A.api("store_object", "th")
    wf = Q("_write_to_tmp_file_and_get_hex_digests")
    for c in it.calls:
        if c["callee"] == wf and c.get("ret"):
            inner = [r for r in it.calls if r["callee"] == Q("_refine_algorithm_list") and r["ctx"][:len(c["ctx"]) + 1] == c["ctx"] + (wf,)]
            rd.ob()
            rd.inst(f"{'>'.join(x.split('.')[-1] for x in c['ctx'])}: digest map keys")
            if len(inner) != 1:
                rd.fail(wf, "_refine_algorithm_list", "the per-call algorithm list is not computed exactly once per store")
                continue
            am = inner[0].get("argmap", {})
            wam = c.get("argmap", {})
            if am.get("additional_algorithm") != wam.get("additional_algorithm") or am.get("checksum_algorithm") != wam.get("checksum_algorithm"):
                rd.fail(inner[0]["func"], inner[0]["node"], "the algorithm list is refined from something other than this call's additional/checksum algorithm",
                        A.p.loc(inner[0]["func"], inner[0]["node"]))
            for t in c["ret"]:
                if tag(t) == "tuple":
                    for d in t[1][0]:
                        if tag(d) == "dictzip" and d[1] != inner[0]["ret"]:
                            rd.fail(wf, "dict(zip(...))", "digest map keys are not the list returned by _refine_algorithm_list for this call")
    rules.append(rd)
    return rules


# =======================================================================================
def check_C06(A: Analysis, tier):
    rules = []
    vf = A.p.func(Q("_verify_object_information"))
    ra = Rule("C06", "C06.a", "every comparison of the caller's checksum with a digest normalises the checksum the "
              "same way, and that way includes lower-casing (digests are lower-case hex)", floor=2)
    cmps = []
    # the verifier and the private checkers it hands the checksum on to (the parameter is followed by position / keyword)
    scope, todo_ = [], [(vf, "checksum", 0)]
    while todo_:
        g_, var_, depth_ = todo_.pop()
        if any(g_ is x and var_ == v_ for x, v_ in scope) or depth_ > 3:
            continue
        scope.append((g_, var_))
        for c_ in ast.walk(g_.node):
            if isinstance(c_, ast.Call) and isinstance(c_.func, ast.Attribute) and isinstance(c_.func.value, ast.Name) and c_.func.value.id == "self":
                callee = A.p.method(CLS, c_.func.attr)
                if callee is None:
                    continue
                params = [a.arg for a in callee.node.args.args if a.arg != "self"]
                for i_, a_ in enumerate(c_.args):
                    if isinstance(a_, ast.Name) and a_.id == var_ and i_ < len(params):
                        todo_.append((callee, params[i_], depth_ + 1))
                for k_ in c_.keywords:
                    if isinstance(k_.value, ast.Name) and k_.value.id == var_ and k_.arg:
                        todo_.append((callee, k_.arg, depth_ + 1))
    for g_, var_ in scope:
        for n in ast.walk(g_.node):
            if isinstance(n, ast.Compare) and len(n.ops) == 1 and isinstance(n.ops[0], (ast.Eq, ast.NotEq)):
                sides = [n.left, n.comparators[0]]
                for i, sd in enumerate(sides):
                    rn, chain = root_name(sd)
                    if rn == var_:
                        o = sides[1 - i]
                        orn, _ = root_name(o)
                        cmps.append((n, tuple(c for c in chain), orn))
    # a verdict taken through a function call instead of ==/!= (it may not be total)
    for n in [x for g_, var_ in scope for x in ast.walk(g_.node)]:
        if isinstance(n, ast.Call) and len(n.args) >= 2 and not norm(n.func).startswith(("self.", "logging.")):
            roots = [root_name(a)[0] for a in n.args]
            if any(r in {v_ for _g, v_ in scope} for r in roots) and any(r and r.startswith("hex_digest") for r in roots):
                ra.inst(f"_verify_object_information:{n.lineno} `{norm(n)}`")
                ra.ob()
                ra.fail(vf, n, f"the verdict compares the caller's checksum with the digest through `{norm(n.func)}(...)` rather than ==/!=: "
                        "unlike string equality such a call can raise for some checksum strings (e.g. non-ASCII), so an invalid checksum "
                        "escapes as an undocumented error before the temp file is removed / the object deleted", A.p.loc(vf, n))
    for n, chain, orn in cmps:
        ra.inst(f"_verify_object_information:{n.lineno} `{norm(n)}`")
        ra.ob()
    chains = {c for _, c, _ in cmps}
    for n, chain, orn in cmps:
        if "lower" not in chain and "casefold" not in chain:
            sib = [x for x in cmps if x[0] is not n and ("lower" in x[1] or "casefold" in x[1])]
            ra.fail(vf, n, "the caller's checksum is compared case-sensitively with a lower-case hex digest"
                    + (f" (the sibling comparison at line {sib[0][0].lineno} lower-cases it)" if sib else "")
                    + ": a correct upper-case checksum is judged invalid", A.p.loc(vf, n))
    if len(chains) > 1 and not ra.findings:
        n = cmps[0][0]
        ra.fail(vf, n, f"sibling checksum comparisons normalise differently: {sorted(chains)}", A.p.loc(vf, n))
    rules.append(ra)

    rb = Rule("C06", "C06.b", "the verdict is taken before the temp file is published and before tagging; both "
              "branches (new / already stored content) call the same verifier with the same arguments", floor=4)
    VQ = Q("_verify_object_information")
    for m in ALL_MODES:
        it = A.api("store_object", m)
        groups = {}
        for c in it.calls:
            if c["callee"] == VQ:
                # one group per invocation of the store step: the temp file it verifies carries the chain of call sites that created it
                groups.setdefault((c["ctx"][:2], c.get("argmap", {}).get("tmp_file_name", EMPTY)), []).append(c)
        for pre, cs in sorted(groups.items(), key=repr):
            rb.ob()
            rb.inst(f"store_object [{m}] via {pre[0][-1].split('.')[-1]}: {len(cs)} verifier call(s)")
            ref = {k: v for k, v in cs[0]["argmap"].items() if k != "self"}
            # what the verdict is about: the measured size of the temp file just written and the digests computed while writing it
            sz = ref.get("tmp_file_size", EMPTY)
            rb.ob()
            if not sz or not all(tag(t) == "probe" and t[1] == "getsize" and all(classify(x).cls == "TMP" for x in t[2]) for t in sz):
                rb.fail(cs[0]["func"], cs[0]["node"], f"the size the verdict compares is {showv(sz)[:80]}, not the measured size of the temp file that was written "
                        "(os.path.getsize of it): for a stream whose backing file differs from the bytes it delivers, a valid object is rejected and a wrong size accepted",
                        A.p.loc(cs[0]["func"], cs[0]["node"]))
            for c in cs[1:]:
                cur = {k: v for k, v in c["argmap"].items() if k != "self"}
                if cur != ref:
                    diff = sorted(k for k in set(ref) | set(cur) if ref.get(k) != cur.get(k))
                    rb.fail(c["func"], c["node"], f"the branches pass different arguments ({', '.join(diff)}) to the verifier: the verdict depends on "
                            "whether identical content is already stored", A.p.loc(c["func"], c["node"]))
        for c in it.calls:
            # every normal completion of the store step has passed the verifier (new and already-stored content alike)
            if c["callee"] in (Q("_store_and_validate_data"), Q("_store_data_only")) and c.get("after") is not None:
                rb.ob()
                rb.inst(f"store_object [{m}]: {c['callee'].split('.')[-1]} completes only after a verdict")
                if ("call", VQ) not in c["after"].done:
                    rb.fail(c["func"], c["node"], "content that is already stored (or new content) is accepted without a verdict: a path through "
                            f"{c['callee'].split('.')[-1]} completes without _verify_object_information", A.p.loc(c["func"], c["node"]))
    for m in ALL_MODES:
        it = A.api("store_object", m)
        for ev in it.events:
            if ev.kind == "RENAME" and any(c.cls == "OBJ" for c in primary(ev.classes[1])):
                rb.ob()
                rb.inst(f"publish at {ev.func.qual}:{ev.line} [{'>'.join(x.split('.')[-1] for x in ev.ctx[:2])}]")
                if ("call", Q("_verify_object_information")) not in ev.done:
                    rb.fail(site_func(ev), site_text(ev), "the temp file is moved to its permanent address on a path that did not pass "
                            "_verify_object_information: an object failing validation would be added", site_loc(A, ev))
        for c in it.calls:
            if c["callee"] == Q("tag_object"):
                rb.ob()
                rb.inst(f"store_object:{c['node'].lineno} tag_object after validation")
                if ("call", Q("_store_and_validate_data")) not in c["state"].done:
                    rb.fail(c["func"], c["node"], "tag_object is reachable before the object was stored and validated: an invalid verdict could bind the pid",
                            A.p.loc(c["func"], c["node"]))
    rules.append(rb)

    rg6 = Rule("C06", "C06.g", "scenario `pid and expected size given`: wherever store_object goes on to tag, it has established that the measured size "
               "of the temp file equals the expected size, for every admissible expected size (the checker admits all integers >= 1)", floor=2)

    def size_given(atom):
        if atom[0] == "isnone" and atom[1] in (V(P("expected_object_size")), V(P("pid"))):
            return False
        return None

    for m in ALL_MODES:
        it_z = A.run(Q("store_object"), m, tagk="size-given", assume=size_given)
        for c in it_z.calls:
            if c["callee"] == Q("tag_object"):
                rg6.ob()
                rg6.inst(f"store_object [{m}] with an expected size: tag_object at line {c['node'].lineno}")
                ok_z = False
                for f_, pol in c["state"].facts:
                    for a_ in F.atoms_of(f_):
                        if a_[0] == "cmp" and a_[1] in ("==", "!=") and V(P("expected_object_size")) in (a_[2], a_[3]):
                            other = a_[3] if a_[2] == V(P("expected_object_size")) else a_[2]
                            if other and all(tag(t) == "probe" and t[1] == "getsize" for t in other) and F.implied(c["state"].facts, a_) is (a_[1] == "=="):
                                ok_z = True
                if not ok_z:
                    rg6.fail(c["func"], c["node"], "the pid is tagged on a path on which the measured size was not compared (equal) with the expected size that was "
                             "given: for some admissible expected size the size check is skipped and a wrong size is accepted", A.p.loc(c["func"], c["node"]))
    rules.append(rg6)

    rc = Rule("C06", "C06.c", "an invalid verdict for a pid removes the temp file before raising, and the "
              "already-stored branch removes it in a finally", floor=2)
    for n in ast.walk(vf.node):
        if isinstance(n, ast.Raise) and isinstance(n.exc, ast.Call) and norm(n.exc.func) in ("NonMatchingObjSize", "NonMatchingChecksum"):
            for i in enclosing(n, ast.If):
                if norm(i.test) == "pid is not None" and in_body(n, i.body):
                    rc.ob()
                    rc.inst(f"_verify_object_information:{n.lineno} raise {norm(n.exc.func)} for a pid")
                    before = [s for s in i.body if s.lineno < n.lineno]
                    ok = any(isinstance(c, ast.Call) and norm(c.func) == "self._delete" and call_arg(c, 1, "file") is not None
                             and norm(call_arg(c, 1, "file")) == "tmp_file_name" for s in before for c in ast.walk(s))
                    if not ok:
                        rc.fail(vf, n, "the mismatch error is raised for a pid without first deleting the temp file", A.p.loc(vf, n))
                    break
    # scenario "identical content is already stored": the redundant temp file is gone at every exit
    def already_stored(atom):
        if atom[0] == "probe" and atom[1] in ("isfile", "exists") and any(classify(t).cls == "OBJ" for t in atom[2]):
            return True
        return None

    for m in ALL_MODES:
        it_s = A.run(Q("store_object"), m, tagk="already-stored", assume=already_stored)
        for k_, l_, st_, rv_ in it_s.exits:
            rc.ob()
            left = [t for t in st_.tmps if any("objects" in repr(x) for x in subterms(t))]
            if ("call", Q("_write_to_tmp_file_and_get_hex_digests")) in st_.done:
                rc.inst(f"store_object [{m}] already-stored scenario: exit {k_} {l_ or ''}")
            if left:
                rc.fail(Q("store_object"), f"exit {k_} {l_ or ''} with the temp object file left", "on the already-stored branch the redundant temp file "
                        f"is not removed on every path (exit: {k_} {l_ or ''})", A.p.loc(A.p.func(Q("store_object")), A.p.func(Q("store_object")).node))
    rules.append(rc)

    rd = Rule("C06", "C06.d", "delete_if_invalid_object deletes (reference-guarded) exactly on the two invalid verdicts, "
              "re-raises the same class, and never deletes on a valid verdict", floor=2)
    for m in ALL_MODES:
        it = A.api("delete_if_invalid_object", m)
        for (fn, h, lab, ctx, o) in it.handler_runs:
            if fn.qual == A.impl_q("delete_if_invalid_object") and lab in ("NonMatchingObjSize", "NonMatchingChecksum"):
                rd.ob()
                rd.inst(f"delete_if_invalid_object [{m}] except {lab}")
                if lab not in o.raises or o.normal is not None or o.ret is not None:
                    rd.fail(fn, f"except {lab}", f"the {lab} verdict leaves as {sorted(map(str, o.raises)) or 'normal completion'}", A.p.loc(fn, h))
        labs = {c["state"].handling[-1] if c["state"].handling else None for c in it.calls if c["callee"] == Q("_delete_object_only")}
        for lb in sorted(labs, key=str):
            rd.inst(f"delete_if_invalid_object [{m}] deletes while handling {lb}")
        other = sorted(str(lb) for lb in labs if lb not in (None, "NonMatchingObjSize", "NonMatchingChecksum"))
        if other:
            rd.fail(Q("delete_if_invalid_object"), "self._delete_object_only(...)", f"_delete_object_only also runs while {', '.join(other)} is propagating (an I/O error "
                    "during validation, an unsupported algorithm, ...): an object whose size and checksum are correct is deleted")
        rd.ob()
        if None in labs:
            rd.fail(Q("delete_if_invalid_object"), "self._delete_object_only(...)", "_delete_object_only is reachable on the valid-verdict path: a valid object would be deleted")
        for lab in ("NonMatchingObjSize", "NonMatchingChecksum"):
            if lab not in labs:
                rd.fail(Q("delete_if_invalid_object"), f"except {lab}", f"the invalid verdict {lab} does not delete the (unreferenced) object")
        for c in it.calls:
            if c["callee"] == Q("_delete_object_only"):
                v = c.get("argmap", {}).get("cid") or (c["args"][-1] if c["args"] else EMPTY)
                if not v or not all(tag(t) == "iattr" and t[2] == "cid" for t in v):
                    rd.fail(c["func"], c["node"], "delete_if_invalid_object deletes something other than object_metadata.cid", A.p.loc(c["func"], c["node"]))
    rules.append(rd)

    rh6 = Rule("C06", "C06.h", "an invalid verdict leaves the call as the mismatch error: between catching the verdict and re-raising it, the only "
               "file-system operations are the removals the verdict calls for (the temp file; the unreferenced object behind its reference guard) - "
               "nothing is read, opened, listed or created whose failure (a file that need not exist) would replace the mismatch error, and no such "
               "handler completes normally", floor=2)
    VERDICTS = ("NonMatchingObjSize", "NonMatchingChecksum")
    for e in ("store_object", "delete_if_invalid_object"):
        for m in ALL_MODES:
            it = A.api(e, m)
            for (fn, h, lab, ctx, o) in it.handler_runs:
                if lab in VERDICTS:
                    rh6.ob()
                    rh6.inst(f"{e} [{m}]: {fn.qual}:{h.lineno} handles {lab}")
                    if (o.normal is not None or o.ret is not None) and fn.qual != A.impl_q("store_object"):
                        rh6.fail(fn, f"except {norm(h.type) if h.type is not None else 'bare'}", f"a {lab} verdict caught here can end in a normal completion: "
                                 "the invalid object is reported as stored / valid", A.p.loc(fn, h), {"entry": e})
                    other = sorted(str(l_) for l_ in o.raises if l_ in VERDICTS and l_ != lab)
                    if other:
                        rh6.fail(fn, f"except {norm(h.type) if h.type is not None else 'bare'} -> raise {other[0]}", f"a {lab} verdict caught here leaves the handler as "
                                 f"{other[0]}: the caller is told about another kind of mismatch than the one that was found (the documented error for this "
                                 f"verdict is {lab})", A.p.loc(fn, h), {"entry": e})
            for ev in it.events:
                if ev.handling and ev.handling[-1] in VERDICTS and ev.kind in ("READ", "WRITE", "CREATE", "MKDIR") and not ev.prim.startswith("file."):
                    rh6.ob()
                    rh6.fail(site_func(ev), site_text(ev), f"while the {ev.handling[-1]} verdict is being handled, {e} performs {ev.kind} ({ev.prim}) on "
                             f"{sorted({c.cls for c in primary(ev.classes[0])}) if ev.classes else '?'}: if that fails - the file need not exist for an object nothing "
                             "references yet - its error replaces the documented mismatch error", site_loc(A, ev), {"entry": e, "mode": m})
    rules.append(rh6)

    rj6 = Rule("C06", "C06.j", "zero is a size: no decision in store_object / delete_if_invalid_object is taken on the truth value of a measured size "
               "(os.path.getsize of the temp file / object, ObjectMetadata.obj_size) - `if size:` / `all((.., size))` treat the empty object as "
               "'no size known', so its validation is skipped or it is refused as incomplete", floor=2)

    def measured(v):
        return any(tag(x) == "probe" and x[1] in ("getsize", "stat") or (tag(x) == "iattr" and x[2] in ("obj_size", "st_size")) for t in v for x in subterms(t))

    for e in ("store_object", "delete_if_invalid_object"):
        it = A.api(e, "th")
        rj6.ob()
        rj6.inst(f"{e}: {len(it.exits)} exit state(s), {len(it.raise_sites)} raise site(s)")
        seenj = set()
        states = [(None, st_) for k_, l_, st_, rv_ in it.exits] + [(rn_, s_) for (rf_, rn_, s_, rctx) in it.raise_sites]
        for node_, st_ in states:
            for f_, pol in st_.facts:
                for a_ in F.atoms_of(f_):
                    if a_[0] == "truthy" and measured(a_[1]) and repr(a_) not in seenj:
                        seenj.add(repr(a_))
                        fn_ = A.impl(e)
                        rj6.fail(fn_, f"truth value of {showv(a_[1])[:60]}", f"{e} takes a decision on the truth value of a measured size ({showv(a_[1])[:60]}): for an empty "
                                 "object (0 bytes) the size counts as missing - its validation is skipped, or the object is refused / treated as incomplete, "
                                 "although 0 is the true byte count", A.p.loc(fn_, node_ if node_ is not None else fn_.node), {"entry": e})
    rules.append(rj6)

    ri6 = Rule("C06", "C06.i", "the bytes a verdict is computed from are the stored bytes: data objects are opened in binary mode only (shared with C02.k)", floor=3)
    binary_open_rule(A, ri6)
    rules.append(ri6)

    from .rules_locks import shared_state_rule
    rs6 = Rule("C06", "C06.f", "the verdict and its clean-up use only this call's own values: no per-call state is parked in the shared "
               "store object (shared with C07.g)", floor=10)
    shared_state_rule(A, rs6)
    rules.append(rs6)

    re_ = Rule("C06", "C06.e", "a checksum without its algorithm, or the reverse, is rejected", floor=2)
    for label, ov in (("checksum without algorithm", {"checksum": V(C("abc")), "checksum_algorithm": V(NONE), "additional_algorithm": V(NONE)}),
                      ("algorithm without checksum", {"checksum": V(NONE), "checksum_algorithm": V(C("sha256")), "additional_algorithm": V(NONE)})):
        it = A.run(Q("_check_arg_algorithms_and_checksum"), "th", overrides=ov, tagk=label)
        re_.ob()
        re_.inst(f"_check_arg_algorithms_and_checksum with {label}: exits {[k + ':' + str(l) for k, l, s, r in it.exits]}")
        if any(k == "return" for k, l, s, r in it.exits):
            f = A.p.func(Q("_check_arg_algorithms_and_checksum"))
            re_.fail(f, label, f"{label} is accepted: validation is silently skipped or half-applied", A.p.loc(f, f.node))
    f_ = A.p.func(Q("_check_arg_algorithms_and_checksum"))
    for label, add in (("additional algorithm unknown", V(P("additional_algorithm"))), ("no additional algorithm", V(NONE)),
                       ("additional algorithm = store algorithm", V(("selfattr", "algorithm")))):
        ov = {"checksum": V(C("abc")), "checksum_algorithm": V(C("SHA-256")), "additional_algorithm": add}
        it = A.run(Q("_check_arg_algorithms_and_checksum"), "th", overrides=ov, tagk="pair:" + label)
        for k, l, st, rv in it.exits:
            if k != "return":
                continue
            re_.ob()
            for t in rv:
                second = t[1][1] if tag(t) == "tuple" and len(t[1]) == 2 else EMPTY
                re_.inst(f"checksum + algorithm given ({label}): checked algorithm {showv(second)[:60]}")
                bad = [x for x in second if x == NONE or not any(y == C("SHA-256") for y in subterms(x))]
                if bad or not second:
                    re_.fail(f_, "checksum_algorithm_checked", f"with a checksum and its algorithm given ({label}) the algorithm handed on to the "
                             f"verifier can be {showv(frozenset(bad))[:60]} instead of the cleaned name: the checksum comparison is then skipped and a "
                             "wrong checksum accepted", A.p.loc(f_, f_.node))
    rules.append(re_)
    return rules


# =======================================================================================
SWALLOWERS = {
    # (the two handlers that turn the look-up helpers' "could not locate" into an answer - `_exists` and the metadata arm of
    # `_delete` on the pinned tree - are recognised by what they catch, see absence_answer(), not by where they stand)
    (Q("_create_path"), "FileExistsError"): "idempotent mkdir; asserts the directory exists",
    ("Stream.__init__", "(FileNotFoundError, PermissionError, OSError)"): "block-size probe; falls back to 8192",
    ("Stream.__init__", "(FileNotFoundError, PermissionError, OSError, AttributeError)"): "block-size probe; falls back to 8192",
    ("Stream.__init__", "(AttributeError, FileNotFoundError, PermissionError, OSError)"): "block-size probe; falls back to 8192",
    (Q("_write_to_tmp_file_and_get_hex_digests"), "Exception"): "clean-up inside finally, runs while another exception propagates",
    (Q("_delete_marked_files"), "Exception"): "marker of a file already renamed away; the logical effect is complete",
    (Q("_mark_pid_refs_file_for_deletion"), "Exception"): "roll-back helper (C13.b): the original error is re-raised by the caller",
    (Q("_remove_pid_and_handle_cid_refs_deletion"), "Exception"): "roll-back helper (C13.b): the original error is re-raised by the caller",
}


def handler_entries(A, h):
    """[(label, must-done set at entry)] for every time the interpreter entered handler `h` in a public call (both modes)"""
    d = getattr(A, "_handler_entries", None)
    if d is None:
        d = {}
        for it in A.all_api_runs():
            for (fn, hh, lab, ctx, o) in it.handler_runs:
                d.setdefault(id(hh), []).append((lab, o.entry.done if o.entry is not None else frozenset()))
        A._handler_entries = d
    return d.get(id(h), [])


def absence_answer(A, h):
    """the handler catches FileNotFoundError and every exception that reaches it in any public call was created by the
    "could not locate" raise statement of one of the two look-up helpers (an existence answer, which the property exempts),
    never by a failing library call"""
    if h.type is None or norm(h.type) != "FileNotFoundError":
        return False
    lookups = {A.impl_q("_get_hashstore_data_object_path"), A.impl_q("_get_hashstore_metadata_path")}
    ent = handler_entries(A, h)
    return bool(ent) and all(lab == "FileNotFoundError" and any(d_ == ("raised_in", q) for d_ in done for q in lookups) for lab, done in ent)


def tmp_cleanup_swallower(A, f, h):
    """the handler guards a try block whose only file-system effects, in every public call, are existence probes and removals
    of TEMP files (a clean-up that must not replace the outcome of the call): swallowing a failure there hides no effect the
    properties speak about"""
    tries = [t for t in func_nodes(f, ast.Try) if any(h is x for x in t.handlers)]
    if not tries:
        return False
    body_nodes = {id(x) for s_ in tries[0].body for x in ast.walk(s_)}
    d = getattr(A, "_events_by_func", None)
    if d is None:
        d = {}
        for it in A.all_api_runs():
            for ev in it.events:
                for (fn_, nd_) in ev.extra.get("callchain", [(ev.func, ev.node)]) if ev.extra else [(ev.func, ev.node)]:
                    d.setdefault(fn_.node, []).append((id(nd_), ev))
        A._events_by_func = d
    evs = [ev for nid, ev in d.get(f.node, []) if nid in body_nodes and ev.kind not in ("OTHER", "HASH", "HASHNEW", "HASHUPDATE", "CLOSE", "HANDLEOP")]
    if not evs or not any(ev.kind == "REMOVE" for ev in evs):
        return False
    for ev in evs:
        if ev.kind not in ("PROBE", "REMOVE"):
            return False
        if not ev.classes or not all(c.cls == "TMP" for c in primary(ev.classes[0])):
            return False
    return True


def os_capable(h):
    if h.type is None:
        return True
    names = [norm(e) for e in (h.type.elts if isinstance(h.type, ast.Tuple) else [h.type])]
    for n_ in names:
        n_ = {"IOError": "OSError", "EnvironmentError": "OSError"}.get(n_, n_)
        t = getattr(builtins, n_, None)
        if isinstance(t, type) and (issubclass(t, OSError) or issubclass(OSError, t)):
            return True
    return False


def check_C13(A: Analysis, tier):
    rules = []
    ra = Rule("C13", "C13.a", "every handler that can catch an OSError ends in raise on every path, except the tabled "
              "swallowers (one reason each)", floor=18)
    for f in [fn for fn in A.p.funcs.values() if fn.module.name not in ("hashstoreclient", "__init__", "filehashstore_exceptions") and not fn.inherited]:
        for t in func_nodes(f, ast.Try):
            for h in t.handlers:
                if not os_capable(h):
                    continue
                ty = "bare" if h.type is None else norm(h.type)
                ra.ob()
                ra.inst(f"{f.qual}:{h.lineno} except {ty}")
                if ends_in_raise(h.body):
                    continue
                key = (f.qual, ty)
                if absence_answer(A, h) or tmp_cleanup_swallower(A, f, h):
                    continue
                if key in SWALLOWERS:
                    # the finally-clean-up entry applies only to a handler nested in a finally
                    if f.qual == Q("_write_to_tmp_file_and_get_hex_digests"):
                        in_fin = any(in_body(h, tt.finalbody) for tt in func_nodes(f, ast.Try) if tt.finalbody)
                        if not in_fin:
                            ra.fail(f, f"except {ty}", "I/O error swallowed while writing the temp file: store_object would report success "
                                    "for content that was not written", A.p.loc(f, h))
                    continue
                ra.fail(f, f"except {ty}", "this handler can catch a file-system error and complete normally: the failure is swallowed and "
                        "the call reports success without its effect", A.p.loc(f, h))
    rules.append(ra)

    rb = Rule("C13", "C13.b", "the two error-swallowing roll-back helpers are called only from _untag_object, which is "
              "called only from the generic handler of _store_hashstore_refs_files", floor=3)
    callers = {}
    for f in A.p.funcs.values():
        for c in ast.walk(f.node):
            if isinstance(c, ast.Call) and isinstance(c.func, ast.Attribute) and isinstance(c.func.value, ast.Name) and c.func.value.id in ("self", CLS):
                callers.setdefault(c.func.attr, []).append((f, c))
    def only_from(fq, allowed, seen=()):
        """every call chain into fq passes through a function of `allowed` (private helpers
        in between are fine; a public method or an uncalled function is not)"""
        if fq in allowed:
            return True
        name_ = fq.split(".")[-1]
        if fq in seen or name_ in PUBLIC_API or not name_.startswith("_") or name_.startswith("__"):
            return False
        cs = callers.get(name_, [])
        return bool(cs) and all(only_from(f.qual, allowed, seen + (fq,)) for f, _ in cs)

    for name, allowed in (("_mark_pid_refs_file_for_deletion", {Q("_untag_object")}),
                          ("_remove_pid_and_handle_cid_refs_deletion", {Q("_untag_object")}),
                          ("_untag_object", {Q("_store_hashstore_refs_files")})):
        for f, c in callers.get(name, []):
            rb.ob()
            rb.inst(f"{f.qual}:{c.lineno} calls {name}")
            if not only_from(f.qual, allowed):
                rb.fail(f, c, f"{name} swallows I/O errors by design and may only run inside the tagging roll-back, not from {f.qual}",
                        A.p.loc(f, c))
            if name == "_untag_object":
                hs = [h for h in enclosing(c, ast.ExceptHandler)]
                if not hs or not ends_in_raise(hs[0].body):
                    rb.fail(f, c, "the roll-back is not inside a handler that re-raises the original error", A.p.loc(f, c))
    rules.append(rb)

    rc = Rule("C13", "C13.c", "on a failing path: tagging is rolled back before the error is re-raised; a failed "
              "publishing move removes the temp file and raises; the temp writer removes its file on every exceptional exit", floor=4)
    for m in ALL_MODES:
        it = A.api("tag_object", m)
        for (fn, h, lab, ctx, o) in it.handler_runs:
            owner = [t for t in func_nodes(fn, ast.Try) if any(h is x for x in t.handlers)]
            generic = owner and any(hh.type is not None and "HashStoreRefsAlreadyExists" in norm(hh.type) for hh in owner[0].handlers)
            if fn.qual == Q("_store_hashstore_refs_files") and lab == "*" and h.type is not None and norm(h.type) == "Exception" and generic:
                rc.ob()
                rc.inst(f"_store_hashstore_refs_files [{m}] generic handler")
                if o.normal is not None or o.ret is not None:
                    rc.fail(fn, "except Exception", "an unexpected tagging error can complete normally after roll-back: success is reported for a pid that was un-tagged",
                            A.p.loc(fn, h))
                # the roll-back call precedes the re-raise in the handler and is given this call's pid and cid
                pos = {norm(s_): i for i, s_ in enumerate(h.body)}
                def untag_of_this(c):
                    a0, a1 = call_arg(c, 0, "pid"), call_arg(c, 1, "cid")
                    return a0 is not None and a1 is not None and norm(a0) == "pid" and norm(a1) == "cid"

                ut = [i for i, s_ in enumerate(h.body) if any(isinstance(c, ast.Call) and norm(c.func) == "self._untag_object"
                                                             and untag_of_this(c) for c in ast.walk(s_))]
                rz = [i for i, s_ in enumerate(h.body) if isinstance(s_, ast.Raise)]
                called = any(c["callee"] == Q("_untag_object") and "*" in c["state"].handling for c in it.calls)
                if not ut or not rz or min(ut) > min(rz) or not called:
                    rc.fail(fn, "except Exception", "an unexpected tagging error is re-raised without rolling the half-written references back: "
                            "the pid stays half-bound", A.p.loc(fn, h))
        for e, fq, ent in (("store_object", Q("_move_and_get_checksums"), "objects"), ("store_metadata", Q("_put_metadata"), "metadata")):
            it = A.api(e, m)
            for (fn, h, lab, ctx, o) in it.handler_runs:
                if fn.qual == fq and lab == "*" and os_capable(h) and any(isinstance(c, ast.Call) and norm(c.func) == "shutil.move"
                                                                           for t in enclosing(h, ast.Try) for s in t.body for c in ast.walk(s)):
                    rc.ob()
                    rc.inst(f"{fq} [{m}] failed-move handler")
                    if o.normal is not None or o.ret is not None:
                        rc.fail(fn, "except around shutil.move", "a failed move into place can complete normally: success reported without the file",
                                A.p.loc(fn, h))
                    rem = [ev for ev in it.events if ev.kind == "REMOVE" and ev.handling and ev.handling[-1] == "*" and fq in ev.ctx
                           and any(c.cls == "TMP" and c.key == C(ent) for c in primary(ev.classes[0]))]
                    if not rem:
                        rc.fail(fn, "except around shutil.move", "a failed move into place does not remove the temp file", A.p.loc(fn, h))
                    # at the handler's own raise statements: wherever it gives up with nothing at the destination, the temp file is gone
                    dest_cls = "OBJ" if ent == "objects" else "META"
                    for (rf_, rn_, s_, rctx) in it.raise_sites:
                        if rf_ is not fn or not any(rn_ is x for b_ in h.body for x in ast.walk(b_)):
                            continue
                        rc.ob()
                        # (metadata has no "is something at the destination" test: the temp file must be gone at every give-up; the
                        # None-correlated continuations keep `realpath = None` of _delete's look-up apart from the found case)
                        absent = ent == "metadata" or any(F.implied(s_.facts, a_) is False for a_ in probe_last(s_.facts, "isfile", dest_cls))
                        left = [t for t in s_.tmps if classify(t).cls == "TMP" and classify(t).key == C(ent)]
                        if absent and left:
                            rc.fail(fn, rn_, "after a failed move (nothing at the permanent address) the handler gives up here while the temp file can "
                                    "still be there: a failed store leaks a file in the tmp directory", A.p.loc(fn, rn_))
    # the publishing move itself sits inside the try whose handler cleans up (a move placed behind / outside it fails without clean-up)
    for e, dest_cls in (("store_object", "OBJ"), ("store_metadata", "META")):
        it_p = A.api(e, "th")
        for ev in it_p.events:
            if ev.kind == "RENAME" and any(c.cls == dest_cls for c in primary(ev.classes[1])) and any(c.cls == "TMP" for c in primary(ev.classes[0])):
                rc.ob()
                rc.inst(f"{e}: publishing move at {ev.func.qual}:{ev.line}")
                guarded = any(in_body(nd_, t.body) and any(os_capable(h_) for h_ in t.handlers)
                              for (fn_, nd_) in ev.extra.get("callchain", [(ev.func, ev.node)]) if fn_.qual not in (Q("store_object"), Q("store_metadata"))
                              for t in enclosing(nd_, ast.Try))
                if not guarded:
                    rc.fail(ev.func, ev.node, "the move that publishes the temp file is not inside a try whose handler can catch its failure: a failed move "
                            "leaves the temp file behind (and, for objects, skips the check of what is at the permanent address)", A.p.loc(ev.func, ev.node))
    it = A.run(Q("_write_to_tmp_file_and_get_hex_digests"), "th")
    for k, l, st, rv in it.exits:
        rc.ob()
        rc.inst(f"_write_to_tmp_file_and_get_hex_digests exit {k} {l or ''}")
        if k == "raise" and st.tmps:
            f = A.p.func(Q("_write_to_tmp_file_and_get_hex_digests"))
            rc.fail(f, "finally: remove temp file", f"the temp file can survive an exceptional exit ({l}) of the temp writer", A.p.loc(f, f.node))
    rules.append(rc)

    rf = Rule("C13", "C13.f", "once tagging has published a reference file, every error leaving "
              "_store_hashstore_refs_files has passed through the roll-back handler", floor=2)
    shr = A.p.func(Q("_store_hashstore_refs_files"))
    generic = None
    for t in func_nodes(shr, ast.Try):
        if any(hh.type is not None and "HashStoreRefsAlreadyExists" in norm(hh.type) for hh in t.handlers):
            for hh in t.handlers:
                if hh.type is not None and norm(hh.type) == "Exception":
                    generic = hh
    if generic is None:
        raise AnalysisError("_store_hashstore_refs_files: generic roll-back handler (except Exception next to the rejection handler) not found")
    for m in ALL_MODES:
        for e in ("tag_object", "store_object"):
            it = A.api(e, m)
            for c in it.calls:
                if c["callee"] != Q("_store_hashstore_refs_files"):
                    continue
                # (the pid reference may have been published on SOME of the paths joined into a state: its rename is among the state's
                # may-mutations; states are kept apart by boolean flag locals, so a handler that consults a "published" flag is judged per value)
                # "published on some path": the temp file that is renamed onto the pid reference is among the names the state knows as
                # renamed away (a rename that FAILED has not published anything - one injected failure per system call)
                pub_srcs = {t for ev in it.events if ev.kind == "RENAME" and len(ev.classes) > 1 and Q("_untag_object") not in ev.ctx
                            and any(c_.cls == "PIDREFS" for c_ in primary(ev.classes[1])) and not ev.handling for t in ev.paths[0]}
                for lab, states in (c.get("raise_states") or {}).items():
                    for st in states:
                        if ("prim", "RENAME", 1, "PIDREFS") not in st.done and not (pub_srcs & st.gone):
                            continue
                        rf.ob()
                        rf.inst(f"{e} [{m}]: error {lab} after the pid reference was published")
                        if ("caught", Q("_store_hashstore_refs_files"), generic.lineno) not in st.done:
                            rf.fail(shr, f"raise of {lab} after publishing", f"an error ({lab}) raised after the pid reference file was moved into place "
                                    "leaves _store_hashstore_refs_files without passing the roll-back handler: the call fails but the pid stays bound",
                                    A.p.loc(shr, generic))
                        elif ("entered", Q("_untag_object")) not in st.done:
                            # inside the handler, something that can fail (a message built with `%` from run-time text, a look-up, ...)
                            # stands before the roll-back call
                            rf.fail(shr, f"raise of {lab} in the roll-back handler before _untag_object", f"after the pid reference file was moved into place, an error ({lab}) "
                                    "can leave the roll-back handler before _untag_object has been called (a statement that may raise stands in front of "
                                    "it): the call fails but the pid stays bound", A.p.loc(shr, generic))
    rules.append(rf)

    rg = Rule("C13", "C13.g", "the error-swallowing remover _delete_marked_files is only ever handed `_delete` markers (files "
              "already renamed away from their address), never a permanent file", floor=4)
    for m in ALL_MODES:
        for e in ("delete_object", "delete_metadata", "tag_object", "store_object"):
            it = A.api(e, m)
            for ev in it.events:
                if ev.kind == "REMOVE" and ev.func.qual == Q("_delete_marked_files"):
                    rg.ob()
                    rg.inst(f"{e}: {'>'.join(x.split('.')[-1] for x in ev.ctx[-2:])} removes {sorted({c.cls for c in primary(ev.classes[0])})}")
                    for c in primary(ev.classes[0]):
                        if c.cls != "MARKER":
                            rg.fail(site_func(ev), site_text(ev), f"_delete_marked_files, which logs and swallows every removal error, is handed the permanent "
                                    f"{c!r}: if that removal fails the call still reports success while the file stays stored", site_loc(A, ev))
    rules.append(rg)

    rh = Rule("C13", "C13.h", "no `return`, `break` or `continue` inside a `finally` block: it silently discards the exception in "
              "flight (an I/O error would turn into a normal completion)", floor=1)
    nfin = 0
    for f in [fn for fn in A.p.funcs.values() if fn.module.name not in ("hashstoreclient", "__init__", "filehashstore_exceptions") and not fn.inherited]:
        for t in func_nodes(f, ast.Try):
            if not t.finalbody:
                continue
            nfin += 1
            rh.ob()
            for s_ in t.finalbody:
                for n in ast.walk(s_):
                    if isinstance(n, (ast.Return, ast.Break, ast.Continue)):
                        # a break/continue of a loop that lies entirely inside the finally is harmless
                        loops = [l for l in ast.walk(s_) if isinstance(l, (ast.For, ast.While)) and any(n is x for x in ast.walk(l))]
                        if isinstance(n, (ast.Break, ast.Continue)) and loops:
                            continue
                        rh.fail(f, n, f"`{norm(n)}` inside a finally block of {f.qual} discards any exception that was propagating: a failed read/write "
                                "would end in a normal completion", A.p.loc(f, n))
    rh.inst(f"{nfin} finally block(s) in filehashstore.py")
    rules.append(rh)

    ri = Rule("C13", "C13.i", "while an error is being handled, a storing call removes permanent files only where it undoes its own step: the tagging "
              "roll-back (this pid's reference, its line in the cid list) and the failed publishing move; delete_if_invalid_object only on its two verdicts", floor=4)
    for e in ("store_object", "tag_object", "store_metadata", "delete_if_invalid_object"):
        for m in ALL_MODES:
            it = A.api(e, m)
            for ev in it.events:
                if not ev.handling or ev.kind not in ("RENAME", "REMOVE"):
                    continue
                cls = {c.cls for c in primary(ev.classes[0])} & {"OBJ", "CIDREFS", "PIDREFS", "META"}
                if not cls:
                    continue
                ri.ob()
                ri.inst(f"{e}: {site_func(ev)}: `{site_text(ev)[:50]}` {sorted(cls)}")
                ok = (Q("_untag_object") in ev.ctx and cls <= {"PIDREFS", "CIDREFS"}) \
                    or (Q("_move_and_get_checksums") in ev.ctx and cls == {"OBJ"} and digest_checked_before_delete(ev)) \
                    or (e == "delete_if_invalid_object" and Q("_delete_object_only") in ev.ctx and cls == {"OBJ"}
                        and ev.handling[-1] in ("NonMatchingObjSize", "NonMatchingChecksum"))
                if not ok:
                    ri.fail(site_func(ev), site_text(ev), f"{e} removes a permanent {'/'.join(sorted(cls))} file while handling {ev.handling[-1]}, outside the roll-back of its own "
                            "step: a failing call may take away what another pid (or a concurrent, not yet tagged store of the same content) relies on",
                            site_loc(A, ev), {"entry": e, "handling": list(ev.handling)})
    rules.append(ri)

    rj = Rule("C13", "C13.j", "store_metadata touches the permanent address of a document by one operation only, the rename of the finished "
              "temp file onto it: no removal, rename-away or open-for-writing of a metadata document (a failure after such a step "
              "would leave the call failed and the previous version gone or damaged)", floor=1)
    for m in ALL_MODES:
        it = A.api("store_metadata", m)
        for ev in it.events:
            if ev.kind not in ("RENAME", "REMOVE", "WRITE", "CREATE"):
                continue
            srcs = {c.cls for c in primary(ev.classes[0])}
            dsts = {c.cls for c in primary(ev.classes[1])} if ev.kind == "RENAME" and len(ev.classes) > 1 else set()
            if "META" not in srcs | dsts:
                continue
            rj.ob()
            if ev.kind == "RENAME" and "META" not in srcs and srcs <= {"TMP"}:
                rj.inst(f"store_metadata [{m}]: publishing rename {site_func(ev)}")
                continue
            what = {"RENAME": "renames away" if "META" in srcs else "renames something that is not its temp file onto",
                    "REMOVE": "removes", "WRITE": "opens for writing", "CREATE": "creates in place"}[ev.kind]
            rj.fail(site_func(ev), site_text(ev), f"store_metadata {what} a permanent metadata document: if the call fails after this step the previous "
                    "document version is no longer intact (replacement must be the single rename of the temp file)", site_loc(A, ev),
                    {"mode": m, "kind": ev.kind})
    rules.append(rj)

    re_ = Rule("C13", "C13.e", "no call completes normally out of a handler that caught a library (I/O) error, "
               "except through a tabled swallower", floor=8)
    for m in ("th",):
        for e in ("store_object", "tag_object", "delete_object", "store_metadata", "delete_metadata"):
            it = A.api(e, m)
            for (fn, h, lab, ctx, o) in it.handler_runs:
                if lab != "*" and not (isinstance(getattr(builtins, str(lab), None), type) and issubclass(getattr(builtins, str(lab)), OSError)):
                    continue
                ty = "bare" if h.type is None else norm(h.type)
                re_.ob()
                re_.inst(f"{fn.qual}:{h.lineno} except {ty} <- {lab}")
                if (o.normal is not None or o.ret is not None) and (fn.qual, ty) not in SWALLOWERS and not absence_answer(A, h) \
                        and not tmp_cleanup_swallower(A, fn, h):
                    re_.fail(fn, f"except {ty}", f"a {lab} error caught here lets {e} continue to a normal return", A.p.loc(fn, h))
    rules.append(re_)
    return rules


# =======================================================================================
def check_C14(A: Analysis, tier):
    rules = []
    vp = A.p.func(Q("_verify_hashstore_properties"))
    req = [e.value for e in A.p.class_attr_assigns(CLS)["property_required_keys"].elts]
    ra = Rule("C14", "C14.a", "when hashstore.yaml exists, every normal return of _verify_hashstore_properties has compared, "
              "for equality, each pinned key (all required keys but store_path) of the stored configuration with the "
              "supplied value of the same key, depth and width as integers", floor=4)

    def cfg_exists(atom):
        if atom[0] == "probe" and atom[1] in ("isfile", "exists") and any(classify(t).cls == "CONFIG" for t in atom[2]):
            return True
        return None

    # the verifier is judged on its own when it still takes the caller's dictionary; when it was handed a validated record instead
    # (a dataclass built by the validator), on the constructor: the equalities must then hold at the constructor's normal returns
    ctor_mode = "properties" not in [a.arg for a in vp.node.args.args + vp.node.args.kwonlyargs]
    it_a = A.run(Q("__init__") if ctor_mode else Q("_verify_hashstore_properties"), "th", tagk="config-exists", assume=cfg_exists)

    def _supplied_key(t):
        """properties[k] / properties.get(k), possibly under int(): the key k"""
        if tag(t) == "int" and isinstance(t[1], tuple):
            t = t[1]
        if tag(t) == "item" and t[1] == P("properties") and tag(t[2]) == "const":
            return t[2][1]
        if tag(t) == "callres" and t[1] == "get" and len(t) > 2 and len(t[2]) == 2 and t[2][0] == (P("properties"),) \
                and len(t[2][1]) == 1 and len(t[2][1][0]) == 1 and tag(t[2][1][0][0]) == "const":
            return t[2][1][0][0][1]
        return None

    def keys_in(v):
        out = set()
        for t in v:
            if ctor_mode and _supplied_key(t) is not None:
                out.add(_supplied_key(t))
                continue
            for x in subterms(t):
                if tag(x) == "item" and tag(x[2]) == "const":
                    out.add(x[2][1])
        return out

    def from_props(v):
        if ctor_mode:
            return bool(v) and all(_supplied_key(t) is not None for t in v)
        return any(P("properties") in subterms(t) for t in v)

    pinned = [k for k in req if k != "store_path"]
    normals = [(st_) for k_, l_, st_, rv_ in it_a.exits if k_ == "return"]
    ra.ob()
    if not normals:
        ra.fail(vp, "return", "with a configuration file present _verify_hashstore_properties never returns normally", A.p.loc(vp, vp.node))
    if not any(l_ == "ValueError" for k_, l_, st_, rv_ in it_a.exits if k_ == "raise"):
        ra.fail(vp, "raise ValueError", "a mismatch between supplied and stored configuration no longer raises ValueError", A.p.loc(vp, vp.node))
    for st_ in normals:
        for k in pinned:
            ra.ob()
            hit = None
            for f, pol in st_.facts:
                if f[0] == "cmp" and f[1] == "==" and pol is True:
                    sides = (f[2], f[3])
                    for i in (0, 1):
                        if from_props(sides[i]) and not from_props(sides[1 - i]) and keys_in(sides[i]) == {k} and keys_in(sides[1 - i]) == {k}:
                            hit = (sides[i], sides[1 - i])
            ra.inst(f"pinned key {k}: " + (f"{showv(hit[1])[:40]} == {showv(hit[0])[:40]}" if hit else "no equality established"))
            if hit is None:
                ra.fail(vp, f"comparison of {k}", f"_verify_hashstore_properties can accept the supplied properties without having established that "
                        f"`{k}` equals the value stored under the same key in hashstore.yaml: a store could be reopened with another {k}",
                        A.p.loc(vp, vp.node))
            elif any(tag(x) in ("strop", "callres", "slice") for side in hit for t in side for x in subterms(t)
                     if not (ctor_mode and tag(x) == "callres" and _supplied_key(x) is not None)):
                ops = sorted({x[1] for side in hit for t in side for x in subterms(t) if tag(x) == "strop"})
                ra.fail(vp, f"comparison of {k}", f"`{k}` is compared after a string transformation ({', '.join(map(str, ops)) or 'call'}) of the stored / supplied value, not for "
                        "equality of the values themselves: a configuration that differs from the pinned one (e.g. in letter case - another namespace, hence "
                        "other document addresses) is accepted", A.p.loc(vp, vp.node))
            elif k in ("store_depth", "store_width") and not all(tag(t) == "int" for t in hit[0]):
                ra.fail(vp, f"int({k})", f"`{k}` is compared without integer coercion of the supplied value (an integer-like string would be refused)",
                        A.p.loc(vp, vp.node))
    rules.append(ra)

    rh14 = Rule("C14", "C14.h", "a pinned key that is missing from hashstore.yaml is an error, not a key that goes uncompared: under the scenario "
                "\"hashstore.yaml exists and key k is absent from the loaded configuration\" the constructor has no normal return (one run per pinned key)", floor=4)
    for k in pinned:
        def scen(atom, k=k):
            if cfg_exists(atom):
                return True
            if atom[0] == "cmp" and atom[1] == "in" and atom[2] == V(C(k)) and atom[3] and all(tag(t) == "yaml" for t in atom[3]):
                return False
            return None
        it_k = A.run(Q("__init__"), "th", tagk=f"config-lacks-{k}", assume=scen)
        rh14.ob()
        rh14.inst(f"hashstore.yaml without {k}: exits {sorted({(kk, str(l_)) for kk, l_, _s, _r in it_k.exits})}")
        if any(kk == "return" for kk, l_, _s, _r in it_k.exits):
            rh14.fail(vp, f"missing {k}", f"with `{k}` missing from hashstore.yaml (hand edit, damage, another writer) the constructor still completes "
                      f"normally: the key is never compared and the store opens with whatever {k} the caller supplies", A.p.loc(vp, vp.node))
    rules.append(rh14)

    rb = Rule("C14", "C14.b", "in the constructor every file-system change is preceded on all paths by property "
              "validation and the comparison with the stored configuration; the configuration is written only for an "
              "accepted store algorithm", floor=3)
    it = A.run(Q("__init__"), "th")
    for ev in it.events:
        if ev.kind in MUT or ev.kind == "MKDIR":
            rb.ob()
            rb.inst(f"{ev.func.qual}:{ev.line} {ev.kind} {ev.prim}")
            for need in (Q("_validate_properties"), Q("_verify_hashstore_properties")):
                if ("call", need) not in ev.done:
                    rb.fail(site_func(ev), site_text(ev), f"the constructor changes the file system before {need.split('.')[-1]} has accepted the "
                            "properties: a refused open would leave files/directories behind", site_loc(A, ev))
            # the last refusal of an open is the reading of the stored algorithm tables (an unsupported / missing entry in an existing
            # hashstore.yaml raises there): the store's directory trees are created only after it (writing the configuration itself
            # necessarily comes first - that is _write_properties' business, judged above)
            sda_q = A.impl_q("_set_default_algorithms")
            if Q("_write_properties") not in ev.ctx and sda_q not in ev.ctx and ("call", sda_q) not in ev.done:
                rb.fail(site_func(ev), site_text(ev), "the constructor changes the file system before _set_default_algorithms has read the stored algorithm "
                        "tables: an open that is then refused (unsupported store algorithm / missing list in an existing hashstore.yaml) has already "
                        "created directories", site_loc(A, ev))
            if Q("_write_properties") in ev.ctx:
                okalg = any(f[0] == "cmp" and f[1] == "in" and pol is True for f, pol in ev.facts) or \
                    any(a[0] == "cmp" and a[1] == "in" and F.implied(ev.facts, a) is True for f, pol in ev.facts for a in F.atoms_of(f))
                if not okalg:
                    rb.fail(site_func(ev), site_text(ev), "the store root / configuration file is created before the store algorithm was "
                            "checked against the accepted list", site_loc(A, ev))
    # what is tested against the accepted list is the very value that is recorded (not an upper-cased / stripped copy of it)
    bq = A.impl_q("_build_hashstore_yaml_string")
    bnode = A.p.func(bq).node
    bdict = next((n for n in ast.walk(bnode) if isinstance(n, ast.Dict) and any(isinstance(k, ast.Constant) and k.value == "store_algorithm" for k in n.keys)), None)
    aparam = None
    if bdict is not None:
        for k, v in zip(bdict.keys, bdict.values):
            if isinstance(k, ast.Constant) and k.value == "store_algorithm" and isinstance(v, ast.Name):
                aparam = v.id
    for c in it.calls:
        if c["callee"] != bq or aparam is None:
            continue
        vals = (c.get("argmap") or {}).get(aparam)
        if not vals:
            continue
        rb.ob()
        rb.inst(f"{c['func'].qual}:{c['node'].lineno} store_algorithm written: {showv(vals)[:50]}")
        tested = [a for f, pol in c["state"].facts for a in F.atoms_of(f) if a[0] == "cmp" and a[1] == "in" and F.implied(c["state"].facts, a) is True]
        if not any(a[2] == vals for a in tested):
            rb.fail(c["func"], c["node"], "the store algorithm that is recorded in hashstore.yaml is not the value that was tested against the accepted list "
                    f"(tested: {[showv(a[2])[:40] for a in tested][:2]}, written: {showv(vals)[:40]}): an unsupported spelling passes the gate, the "
                    "configuration is written, and only then the constructor fails - files are left behind and the directory is pinned to the bad value",
                    A.p.loc(c["func"], c["node"]))
    rules.append(rb)

    rc = Rule("C14", "C14.c", "hashstore.yaml is created only by _write_properties, only when tested absent there and "
              "at its call site", floor=1)
    seen = False
    for e in [Q("__init__")] + [Q(a) for a in PUBLIC_API]:
        it = A.run(e, "th")
        for ev in it.events:
            if ev.kind in ("CREATE", "WRITE", "RENAME", "REMOVE"):
                for i, c in resource_hits(ev, {"CONFIG"}):
                    if ev.prim.startswith("file."):
                        continue
                    rc.ob()
                    rc.inst(f"{ev.func.qual}:{ev.line} {ev.kind} on hashstore.yaml")
                    seen = True
                    if ev.func.qual != Q("_write_properties") or ev.kind != "CREATE":
                        rc.fail(site_func(ev), site_text(ev), f"hashstore.yaml is modified ({ev.kind}) outside its one-time creation", site_loc(A, ev))
                        continue
                    atoms = probe_atoms(ev.facts, "isfile", "CONFIG")
                    if not atoms or not all(F.implied(ev.facts, a) is False for a in atoms):
                        rc.fail(site_func(ev), site_text(ev), "hashstore.yaml is opened for writing on a path where it was not tested absent: "
                                "an existing configuration could be overwritten", site_loc(A, ev))
    if not seen:
        rc.fail(Q("_write_properties"), "open(hashstore.yaml, 'w')", "the configuration file is never written: a new store would not pin its configuration")
    rules.append(rc)

    rd = Rule("C14", "C14.d", "without a configuration file, but with the store path present, the constructor probes every "
              "entity directory it would later create and refuses (RuntimeError) when any exists", floor=2)

    def no_cfg(atom):
        if atom[0] == "probe" and atom[1] in ("isfile", "exists", "isdir"):
            if any(classify(t).cls == "CONFIG" for t in atom[2]):
                return False
            if atom[1] == "exists" and all(tag(t) in (("param", "root") if ctor_mode else ("param",)) for t in atom[2]):
                return True
        return None

    it_d = A.run(Q("__init__") if ctor_mode else Q("_verify_hashstore_properties"), "th", tagk="no-config", assume=no_cfg)
    probed = set()
    for ev in it_d.events:
        if ev.kind == "PROBE" and ev.prim.endswith(("isdir", "exists")) and (not ctor_mode or vp.qual in ev.ctx):
            for t in ev.paths[0]:
                if tag(t) == "join" and len(t[1]) == 2 and tag(t[1][0]) in ("param", "root") and is_const_str(t[1][1]):
                    probed.add(t[1][1][1])
    created = set()
    for ev in it_events(A.run(Q("__init__"), "th")):
        if ev.kind == "MKDIR":
            for c in ev.classes[0]:
                if c.cls in ("TMPDIR", "ENTITYDIR"):
                    created.add(c.key[1].split("/")[0])
    rd.inst(f"probed without config: {sorted(probed)}")
    rd.inst(f"created by the constructor: {sorted(created)}")
    rd.ob(3)
    if not created <= probed:
        rd.fail(vp, "entity directories probed", f"directories probed for an existing store ({sorted(probed)}) do not cover those the constructor creates "
                f"({sorted(created)}): a directory holding store data but no configuration could be re-initialised with other settings", A.p.loc(vp, vp.node))
    labs = {l_ for k_, l_, st_, rv_ in it_d.exits if k_ == "raise"}
    if "RuntimeError" not in labs:
        rd.fail(vp, "raise RuntimeError", "existing store data without a configuration file is not refused", A.p.loc(vp, vp.node))
    for k_, l_, st_, rv_ in it_d.exits:
        if k_ == "return" and probed and not any(f[0] == "any" and pol is False for f, pol in st_.facts):
            rd.fail(vp, "return", "without a configuration file the constructor can proceed on a path that did not establish that no entity directory exists",
                    A.p.loc(vp, vp.node))
    rules.append(rd)

    rf = Rule("C14", "C14.f", "every open reads the configuration from hashstore.yaml on disk: _load_properties and "
              "_set_default_algorithms read the file on every path on which they return", floor=2)
    it0 = A.run(Q("__init__"), "th")
    for c in it0.calls:
        if c["callee"] in (Q("_load_properties"), Q("_set_default_algorithms")) and c.get("after") is not None:
            rf.ob()
            rf.inst(f"{c['callee']} called at {c['func'].qual}:{c['node'].lineno}")
            if ("prim", "READ", 0, "CONFIG") not in c["after"].done:
                f_ = A.p.func(c["callee"])
                rf.fail(f_, "read of hashstore.yaml", f"{c['callee'].split('.')[-1]} can return without having read hashstore.yaml from disk on this open: "
                        "the properties are compared with / taken from something other than the store's own configuration file (e.g. a cache)",
                        A.p.loc(f_, f_.node))
    rules.append(rf)

    re_ = Rule("C14", "C14.e", "accepted store algorithms = keys of the translation table = default list written to yaml", floor=3)
    wp, acc, acc_test = find_accepted_algorithms(A)
    sda, trans_d = find_translation_table(A)
    trans = list(trans_d) if trans_d else None
    ylist = find_yaml_default_list(A)
    re_.inst(f"accepted {acc}")
    re_.inst(f"translation keys {trans}")
    re_.inst(f"yaml default list {ylist}")
    re_.ob(2)
    if acc is None or trans is None or ylist is None:
        # the tables are not literal any more: this rule has lost its anchors (the run is refused as not analysable unless
        # another rule of the property reports a violation, which then stands)
        re_.instances = []
    elif set(acc) - set(trans):
        re_.fail(wp, "accepted_store_algorithms", f"store algorithms {sorted(set(acc) - set(trans))} are accepted at creation but cannot be translated "
                 "when the store is opened", A.p.loc(wp, wp.node))
    if acc is not None and ylist is not None and set(acc) != set(ylist):
        re_.fail(wp, "accepted_store_algorithms", f"accepted store algorithms {acc} differ from the default list {ylist}", A.p.loc(wp, wp.node))
    # membership test guards the write
    if acc is not None and acc_test is None:
        re_.fail(wp, "store_algorithm in accepted_store_algorithms", "the store algorithm is no longer checked against the accepted list", A.p.loc(wp, wp.node))
    rules.append(re_)
    from .rules_locks import shared_state_rule
    rg14 = Rule("C14", "C14.g", "the configuration an instance works with is its own: no method assigns a class attribute or an attribute of the shared "
                "object outside construction (shared with C07.g) - a value written to the class by opening another store changes this store's algorithm", floor=10)
    shared_state_rule(A, rg14)
    rules.append(rg14)
    from .rules_paths import int_config_rule
    ri14 = Rule("C14", "C14.i", "the depth and width an instance works with, and those it records, are the integers the validator made of the supplied values "
                "(the rule of C15.h): integer-like strings are an accepted spelling of the pinned configuration, not another configuration", floor=2)
    int_config_rule(A, ri14)
    rules.append(ri14)
    return rules


def it_events(it):
    return it.events


def is_const_str(t):
    return tag(t) == "const" and isinstance(t[1], str)


# =======================================================================================
CHECKERS = {Q("_check_string"), Q("_check_arg_data"), Q("_check_integer"), Q("_check_arg_algorithms_and_checksum"),
            Q("_check_arg_format_id"), Q("_clean_algorithm")}
# store_object(pid=None, data): documented data-only mode; the other arguments are ignored there
DATA_ONLY_REQUIRED = {"data"}
# the validations each public method performs up front at the pinned commit (confirmed by
# reading; reference for later changes): each pair must have happened before any state change
REQUIRED_VALIDATIONS = {
    "store_object": [("_check_string", "pid"), ("_check_arg_data", "data"), ("_check_integer", "expected_object_size"),
                     ("_check_arg_algorithms_and_checksum", "additional_algorithm"), ("_check_arg_algorithms_and_checksum", "checksum"),
                     ("_check_arg_algorithms_and_checksum", "checksum_algorithm")],
    "tag_object": [("_check_string", "pid"), ("_check_string", "cid")],
    "delete_if_invalid_object": [("_check_string", "checksum"), ("_check_string", "checksum_algorithm"),
                                 ("_check_integer", "expected_file_size"), ("_clean_algorithm", "checksum_algorithm")],
    "store_metadata": [("_check_string", "pid"), ("_check_arg_data", "metadata"), ("_check_arg_format_id", "format_id")],
    "delete_object": [("_check_string", "pid")],
    "delete_metadata": [("_check_string", "pid"), ("_check_arg_format_id", "format_id")],
}


def check_C17(A: Analysis, tier):
    rules = []
    ra = Rule("C17", "C17.a", "at every state-changing primitive of a public call, every parameter the call validates "
              "has already passed its checker on this path (validate before mutate)", floor=8)
    rb = Rule("C17", "C17.b", "every parameter of every public method is handed to a checker during the call (by the method or a helper it calls)", floor=20)
    for m in ALL_MODES:
        for e in PUBLIC_API:
            it = A.api(e, m)
            f = A.p.func(Q(e))
            params = [a.arg for a in f.node.args.args if a.arg != "self"]
            checked = {}
            for c in it.calls:
                if c["callee"] in CHECKERS and c["ctx"] and c["ctx"][0] == Q(e):
                    for pn, v in c.get("argmap", {}).items():
                        for t in v:
                            if tag(t) == "param":
                                checked.setdefault(t[1], set()).add(c["callee"])
            for p_ in params:
                rb.ob()
                if p_ == "object_metadata":
                    ok = any(isinstance(c, ast.Call) and norm(c.func) == "isinstance" and norm(c.args[0]) == p_ for c in ast.walk(A.impl(e).node))
                    rb.inst(f"{e}({p_}): isinstance test")
                else:
                    ok = p_ in checked
                    rb.inst(f"{e}({p_}): {sorted(x.split('.')[-1] for x in checked.get(p_, []))}")
                if not ok and m == "th":
                    rb.fail(f, p_, f"parameter `{p_}` of {e} is not validated by the method: an invalid value is used instead of rejected", A.p.loc(f, f.node))
            for ev in it.events:
                if ev.kind not in MUT and ev.kind != "MKDIR":
                    continue
                ra.ob()
                ra.inst(f"{e}: {ev.func.qual}:{ev.line} {ev.kind}")
                need = set(checked)
                if e == "store_object" and F.implied(ev.facts, ("isnone", V(P("pid")))) is True:
                    need = need & DATA_ONLY_REQUIRED
                for p_ in sorted(need):
                    if not any(d[0] == "argof" and d[1] in CHECKERS and d[3] == P(p_) for d in ev.done if len(d) == 4):
                        ra.fail(site_func(ev), site_text(ev), f"{e} can change the store before `{p_}` has been validated: a call rejected for "
                                f"`{p_}` would already have modified files", site_loc(A, ev), {"entry": e, "param": p_})
                for chk, p_ in REQUIRED_VALIDATIONS.get(e, []):
                    if p_ not in need and not (e == "store_object" and p_ in DATA_ONLY_REQUIRED):
                        if e == "store_object" and F.implied(ev.facts, ("isnone", V(P("pid")))) is True:
                            continue
                    if e == "store_object" and p_ != "data" and F.implied(ev.facts, ("isnone", V(P("pid")))) is True:
                        continue
                    if not any(d[0] == "argof" and d[1] == Q(chk) and d[3] == P(p_) for d in ev.done if len(d) == 4):
                        ra.fail(site_func(ev), site_text(ev), f"{e} can change the store before `{p_}` has passed {chk}: a value that {chk} rejects "
                                "would be rejected only after (or instead of) modifying files", site_loc(A, ev), {"entry": e, "param": p_, "checker": chk})
                if e == "delete_if_invalid_object":
                    if not any(f_[0] == "isinstance" and pol is True for f_, pol in ev.facts):
                        ra.fail(site_func(ev), site_text(ev), "delete_if_invalid_object can delete before object_metadata's type was checked", site_loc(A, ev))
    rules += [ra, rb]

    rf17 = Rule("C17", "C17.f", "an algorithm name the caller supplies has passed the support check (_clean_algorithm) before store_object's first "
                "state change: an unsupported name is rejected while the store is still untouched", floor=2)

    def algorithms_given(atom):
        if atom[0] == "isnone" and atom[1] in (V(P("additional_algorithm")), V(P("checksum_algorithm")), V(P("checksum")), V(P("pid"))):
            return False
        if atom[0] == "cmp" and atom[1] in ("==", "!=") and V(P("additional_algorithm")) in atom[2:4] and V(("selfattr", "algorithm")) in atom[2:4]:
            return atom[1] == "!="
        return None

    for m in ALL_MODES:
        it_g = A.run(Q("store_object"), m, tagk="algorithms-given", assume=algorithms_given)
        nev = 0
        for ev in it_g.events:
            if ev.kind not in MUT and ev.kind != "MKDIR":
                continue
            nev += 1
            rf17.ob()
            for p_ in ("additional_algorithm", "checksum_algorithm"):
                if not any(len(d) == 4 and d[0] == "argof" and d[1] == Q("_clean_algorithm") and d[3] == P(p_) for d in ev.done):
                    rf17.fail(site_func(ev), site_text(ev), f"store_object changes the store ({ev.kind}) on a path on which the supplied `{p_}` has not yet passed "
                              "_clean_algorithm: an unsupported name is rejected only after files were created", site_loc(A, ev), {"param": p_})
        rf17.inst(f"store_object [{m}] with both algorithm names given: {nev} state-changing primitive(s)")
    rules.append(rf17)

    rc = Rule("C17", "C17.c", "the checkers test what is documented: _check_string None/blank/whitespace; "
              "_check_integer type and < 1; _check_arg_data the three accepted types and the empty string", floor=3)
    # what a checker has established when it returns normally is read off the facts of its normal exit (whatever the
    # spelling, operand order or nesting of its tests)
    cs = A.impl("_check_string")
    it_s = A.run(Q("_check_string"), "th")
    sp = cs.node.args.args[0].arg
    normal = [st_ for k_, l_, st_, rv_ in it_s.exits if k_ == "return"]
    rc.ob(3)
    rc.inst(f"_check_string: {len(normal)} normal exit(s), raises {sorted(str(l_) for k_, l_, st_, rv_ in it_s.exits if k_ == 'raise')}")

    def has(st_, pred, truth):
        return any(pred(a_) and F.implied(st_.facts, a_) is truth for f_, pol in st_.facts for a_ in F.atoms_of(f_))

    def is_strip_empty(a_):
        if a_[0] != "cmp" or a_[1] not in ("==", "!="):
            return False
        sides = [a_[2], a_[3]]
        return any(sides[i] == V(C("")) and all(tag(t) == "strop" and t[1] == "strip" and t[2] == P(sp) for t in sides[1 - i]) and sides[1 - i] for i in (0, 1))

    def is_space_any(a_):
        return a_[0] == "any" and "isspace" in repr(a_) and repr(P(sp)) in repr(a_)

    for st_ in normal:
        if not has(st_, lambda a_: a_[0] == "isnone" and a_[1] == V(P(sp)), False):
            rc.fail(cs, "check for None", "_check_string no longer rejects None identifiers", A.p.loc(cs, cs.node))
        ok_empty = any(is_strip_empty(a_) and F.implied(st_.facts, a_) is (a_[1] != "==") for f_, pol in st_.facts for a_ in F.atoms_of(f_))
        if not ok_empty:
            rc.fail(cs, "check for empty / blank", "_check_string no longer rejects empty / blank identifiers", A.p.loc(cs, cs.node))
        if not has(st_, is_space_any, False):
            rc.fail(cs, "check for embedded whitespace", "_check_string no longer rejects embedded whitespace identifiers", A.p.loc(cs, cs.node))
    if not normal:
        rc.fail(cs, "return", "_check_string never returns normally", A.p.loc(cs, cs.node))
    if not any(k_ == "raise" and l_ == "ValueError" for k_, l_, st_, rv_ in it_s.exits):
        rc.fail(cs, "raise ValueError", "_check_string no longer raises ValueError", A.p.loc(cs, cs.node))
    ci = A.impl("_check_integer")
    ip = ci.node.args.args[0].arg

    def size_given(atom):
        return False if atom[0] == "isnone" and atom[1] == V(P(ip)) else None

    it_i = A.run(Q("_check_integer"), "th", tagk="size-given", assume=size_given)
    normal_i = [st_ for k_, l_, st_, rv_ in it_i.exits if k_ == "return"]
    rc.ob(2)
    rc.inst(f"_check_integer (size given): {len(normal_i)} normal exit(s), raises {sorted(str(l_) for k_, l_, st_, rv_ in it_i.exits if k_ == 'raise')}")
    OPS = {"Lt": lambda x, y: x < y, "LtE": lambda x, y: x <= y, "Gt": lambda x, y: x > y, "GtE": lambda x, y: x >= y}

    def bounds_ge1(a_, truth):
        """the comparison, with this truth value, holds for size 1 and fails for size 0"""
        if a_[0] != "cmp" or a_[1] not in OPS:
            return False
        sides = [a_[2], a_[3]]
        for i in (0, 1):
            if sides[i] == V(P(ip)) and len(sides[1 - i]) == 1 and tag(next(iter(sides[1 - i]))) == "const" and isinstance(next(iter(sides[1 - i]))[1], int):
                k = next(iter(sides[1 - i]))[1]
                ev_ = (lambda v: OPS[a_[1]](v, k)) if i == 0 else (lambda v: OPS[a_[1]](k, v))
                return ev_(1) is truth and ev_(0) is not truth
        return False

    for st_ in normal_i:
        if not has(st_, lambda a_: a_[0] == "isinstance" and a_[1] == V(P(ip)) and a_[2] == "int", True):
            rc.fail(ci, "isinstance(size, int)", "_check_integer no longer rejects non-integers", A.p.loc(ci, ci.node))
        if not any(F.implied(st_.facts, a_) is not None and bounds_ge1(a_, F.implied(st_.facts, a_)) for f_, pol in st_.facts for a_ in F.atoms_of(f_)):
            rc.fail(ci, "size < 1", "_check_integer no longer rejects non-positive sizes", A.p.loc(ci, ci.node))
    if not normal_i:
        rc.fail(ci, "return", "_check_integer never returns normally for a given size", A.p.loc(ci, ci.node))
    cd = A.impl("_check_arg_data")
    types = isinstance_types(cd.node)
    rc.inst(f"_check_arg_data admits {types}")
    rc.ob(2)
    if types != ["Path", "io.BufferedIOBase", "str"]:
        rc.fail(cd, "isinstance tests", f"_check_arg_data admits {types}; documented: str, Path, buffered stream", A.p.loc(cd, cd.node))
    if not any(isinstance(r, ast.Raise) for r in ast.walk(cd.node)):
        rc.fail(cd, "raise TypeError", "_check_arg_data no longer raises", A.p.loc(cd, cd.node))
    # scenario runs: which kinds of argument it lets through
    dp = cd.node.args.args[0].arg

    def kind_of(which):
        def asm(atom):
            if atom[0] == "isinstance" and atom[1] == V(P(dp)):
                return atom[2] == which
            return None
        return asm

    for which in (None,) + tuple(types):
        it_k = A.run(Q("_check_arg_data"), "th", tagk=f"data-is-{which}", assume=kind_of(which))
        rets = [st_ for k_, l_, st_, rv_ in it_k.exits if k_ == "return"]
        rc.ob()
        rc.inst(f"_check_arg_data with an argument of type {which or 'other'}: {'accepted' if rets else 'rejected'}")
        if which is None and rets:
            rc.fail(cd, "data of another type", "_check_arg_data lets an argument through that is neither a string, a Path nor a buffered stream: "
                    "the call fails later, after it has changed the store", A.p.loc(cd, cd.node))
        if which is not None and not rets:
            rc.fail(cd, f"data of type {which}", f"_check_arg_data rejects every {which} argument", A.p.loc(cd, cd.node))
        if which == "str":
            for st_ in rets:
                ok_e = any(a_[0] == "cmp" and a_[1] in ("==", "!=") and V(C("")) in (a_[2], a_[3])
                           and F.implied(st_.facts, a_) is (a_[1] != "==") for f_, pol in st_.facts for a_ in F.atoms_of(f_))
                if not ok_e:
                    rc.fail(cd, "empty data string", "_check_arg_data lets an empty / blank path string through", A.p.loc(cd, cd.node))
    rules.append(rc)

    rd = Rule("C17", "C17.d", "retrieve_object, retrieve_metadata and get_hex_digest reach no state-changing primitive; "
              "every open they reach is a read", floor=3)
    for m in ALL_MODES:
        for e in ("retrieve_object", "retrieve_metadata", "get_hex_digest"):
            it = A.api(e, m)
            rd.inst(f"{e} [{m}]: {len(it.events)} primitive events, kinds {sorted({ev.kind for ev in it.events})}")
            for ev in it.events:
                rd.ob()
                if ev.kind in MUT or ev.kind in ("MKDIR", "CHMOD"):
                    rd.fail(site_func(ev), site_text(ev), f"read-only call {e} reaches {ev.kind} ({ev.prim})", site_loc(A, ev), {"entry": e})
            for l in it.lock_events:
                rd.ob()
    rules.append(rd)

    re_ = Rule("C17", "C17.e", "delete_object on an unknown pid raises PidRefsDoesNotExist before any file-system change", floor=1)
    for m in ALL_MODES:
        it = A.api("delete_object", m)
        got = False
        for k, l, st, rv in it.exits:
            if k == "raise" and l == "PidRefsDoesNotExist":
                got = True
                re_.ob()
                re_.inst(f"delete_object [{m}] exit PidRefsDoesNotExist, mutations before: {len(st.muts)}")
                if st.muts:
                    re_.fail(Q("delete_object"), "PidRefsDoesNotExist", "delete_object of an unknown pid changes files before reporting the pid as unknown")
        if not got:
            re_.fail(Q("delete_object"), "PidRefsDoesNotExist", "delete_object no longer reports an unknown pid with PidRefsDoesNotExist")
    rules.append(re_)
    return rules


# =======================================================================================
OPTION_BINDING = {
    # dest -> API parameter names it may bind to (README "HashStore Client")
    "object_pid": {"pid"},
    "object_path": {"data", "metadata"},
    "object_algorithm": {"additional_algorithm", "algorithm"},
    "object_checksum": {"checksum"},
    "object_checksum_algorithm": {"checksum_algorithm"},
    "object_size": {"expected_object_size"},
    "object_formatid": {"format_id"},
}
VERBS = {
    "client_getchecksum": ("get_hex_digest", {"object_pid", "object_algorithm"}),
    "client_storeobject": ("store_object", {"object_pid", "object_path"}),
    "client_storemetadata": ("store_metadata", {"object_pid", "object_path"}),
    "client_retrieveobject": ("retrieve_object", {"object_pid"}),
    "client_retrievemetadata": ("retrieve_metadata", {"object_pid"}),
    "client_deleteobject": ("delete_object", {"object_pid"}),
    "client_deletemetadata": ("delete_metadata", {"object_pid"}),
}
# API parameters for which None has a meaning of its own that a front end must not replace
NONE_SENSITIVE = {("delete_metadata", "format_id"): "None means: all documents of the pid"}


def check_C20(A: Analysis, tier):
    rules = []
    main = A.p.func("main")
    it = A.run("main", "th", inline_api=False)
    api = [c for c in it.calls if c.get("api")]
    # argparse model
    pinit = A.p.func("HashStoreParser.__init__")
    opts = {}
    for c in ast.walk(pinit.node):
        if isinstance(c, ast.Call) and isinstance(c.func, ast.Attribute) and c.func.attr == "add_argument":
            kw = {k.arg: k.value for k in c.keywords if k.arg}
            dest = kw["dest"].value if "dest" in kw and isinstance(kw["dest"], ast.Constant) else (
                c.args[0].value.lstrip("-") if c.args and isinstance(c.args[0], ast.Constant) and isinstance(c.args[0].value, str) else None)
            if dest is not None:
                opts[dest] = {"type": norm(kw["type"]) if "type" in kw else None,
                              "action": kw["action"].value if "action" in kw and isinstance(kw["action"], ast.Constant) else None}
    # table-driven registration: dict literals with a "dest" key anywhere in the parser class
    pcls = A.p.classes.get("HashStoreParser")
    for d in ast.walk(pcls) if pcls is not None else []:
        if isinstance(d, ast.Dict) and any(isinstance(k, ast.Constant) and k.value == "dest" for k in d.keys):
            kw = {k.value: v for k, v in zip(d.keys, d.values) if isinstance(k, ast.Constant)}
            if isinstance(kw["dest"], ast.Constant):
                opts[kw["dest"].value] = {"type": norm(kw["type"]) if "type" in kw else None,
                                          "action": kw["action"].value if "action" in kw and isinstance(kw["action"], ast.Constant) else None}
    if len(opts) < 10:
        raise AnalysisError(f"argparse model: only {len(opts)} option declarations found in HashStoreParser")

    def binding(c):
        f = A.p.func(c["callee"])
        names = [a.arg for a in f.node.args.args if a.arg != "self"]
        out = {}
        for i, v in enumerate(c["args"]):
            if i < len(names):
                out[names[i]] = v
        for k, v in c["kw"].items():
            out[k] = v
        return f, out

    ra = Rule("C20", "C20.a", "every option value reaches the API with the type its parameter requires (argparse "
              "options without type= are strings)", floor=7)
    rb = Rule("C20", "C20.b", "each option binds to the API parameter it is documented for", floor=7)
    rd = Rule("C20", "C20.d", "where the API gives None a meaning of its own the client passes the raw option, not a "
              "substituted default", floor=1)
    for c in api:
        f, b = binding(c)
        meth = c["callee"].split(".")[-1]
        ann = {a.arg: (norm(a.annotation) if a.annotation is not None else "") for a in f.node.args.args}
        for pn, v in b.items():
            ra.ob()
            rb.ob()
            ra.inst(f"{meth}({pn}=) <- {showv(v)[:60]}")
            rb.inst(f"{meth}({pn}=) <- {showv(v)[:60]}")
            for t in v:
                dests = [x[1] for x in subterms(t) if tag(x) == "opt"]
                for d in dests:
                    if d in OPTION_BINDING and pn not in OPTION_BINDING[d]:
                        rb.fail(main, c["node"], f"option dest `{d}` is passed as `{pn}` of {meth}; documented for {sorted(OPTION_BINDING[d])}",
                                A.p.loc(main, c["node"]))
                    # and the converse: a per-request parameter is fed by the per-request option documented for it, not by
                    # another option (e.g. a store-creation option whose dest has a similar name)
                    allowed = {d_ for d_, ps in OPTION_BINDING.items() if pn in ps}
                    if allowed and d not in allowed and d not in OPTION_BINDING:
                        rb.fail(main, c["node"], f"`{pn}` of {meth} is taken from the option dest `{d}`, which is not the option documented for it "
                                f"({sorted(allowed)}): the value given on the command line for `{pn}` never reaches the API", A.p.loc(main, c["node"]))
                wants_int = "int" in ann.get(pn, "")
                if wants_int:
                    if tag(t) == "opt" and (opts.get(t[1], {}).get("type") != "int"):
                        rd_ = f"`-{t[1]}` is parsed as a string and passed unchanged as `{pn}: {ann[pn]}` of {meth}: the API rejects every value"
                        ra.fail(main, f"{meth}({pn}=args.{t[1]})", rd_, A.p.loc(main, c["node"]))
                elif tag(t) == "int":
                    ra.fail(main, f"{meth}({pn}=int(...))", f"`{pn}` of {meth} is a string parameter but receives an int()", A.p.loc(main, c["node"]))
            for t in v:
                for x in subterms(t):
                    if tag(x) == "orelse" and any(tag(y) == "opt" for y in x[1][0]):
                        rd.ob()
                        rd.fail(main, f"{meth}({pn}=<option> or <default>)", f"`{pn}` of {meth} is taken from the option with an `or` default: an explicitly given "
                                "but falsy value (the empty string) is silently replaced, where the API would use or reject exactly what was given",
                                A.p.loc(main, c["node"]))
            if pn == "format_id":
                rd.ob()
                for t in v:
                    ok_t = t == NONE or tag(t) == "opt" or (tag(t) == "item" and t[2] == C("store_metadata_namespace")) or tag(t) == "orelse"
                    if not ok_t:
                        rd.fail(main, f"{meth}({pn}=<hard-coded default>)", f"`{pn}` of {meth} can be {show(t)[:60]}: a default that is neither the option nor the store's "
                                "own `store_metadata_namespace` from hashstore.yaml (the API's default), so client and API address different documents",
                                A.p.loc(main, c["node"]))
            if (meth, pn) in NONE_SENSITIVE:
                rd.ob()
                rd.inst(f"{meth}({pn}=) <- {showv(v)[:80]}")
                if any(tag(t) != "opt" and t != NONE for t in v):
                    rd.fail(main, f"{meth}({pn}=...)", f"the client substitutes a default for a missing `{pn}` before calling {meth} "
                            f"({NONE_SENSITIVE[(meth, pn)]}): `-{meth.replace('_', '')}` without the option behaves differently from the API call",
                            A.p.loc(main, c["node"]))
    rules += [ra, rb]

    rc = Rule("C20", "C20.c", "each documented verb flag dispatches to its API method and demands its required options", floor=7)
    for flag, (meth, required) in VERBS.items():
        rc.ob()
        hit_all = [c for c in api if any(f == ("truthy", V(("opt", flag))) and pol is True for f, pol in c["state"].facts)]
        hit = list({id(c["node"]): c for c in hit_all}.values())   # one call site may be interpreted on several correlated continuations
        rc.inst(f"-{flag[7:]} -> {[c['callee'].split('.')[-1] for c in hit]}")
        if len(hit) != 1 or hit[0]["callee"] != Q(meth):
            rc.fail(main, f"getattr(args, '{flag}')", f"verb flag {flag} dispatches to {[c['callee'] for c in hit] or 'nothing'}, documented: {meth}",
                    A.p.loc(main, main.node))
            continue
        for d in sorted(required):
            if F.implied(hit[0]["state"].facts, ("isnone", V(("opt", d)))) is not False:
                rc.fail(main, f"{meth}: required option {d}", f"{meth} is called although the required option `{d}` may be missing", A.p.loc(main, hit[0]["node"]))
    rules.append(rc)
    rules.append(rd)

    rg20 = Rule("C20", "C20.g", "the client changes nothing in the store by itself: every creation, write, rename or removal of a file under the store "
                "path happens inside an API call", floor=1)
    rg20.inst(f"main: {len(it.events)} primitive event(s) outside API calls")
    for ev in it.events:
        if ev.kind in MUT or ev.kind in ("MKDIR", "CHMOD"):
            rg20.ob()
            from .terms import substitute, ROOT
            for cs in [ev.paths[0] if ev.paths else EMPTY]:
                # in the client the store root is the `store_path` option
                from .terms import is_rooted
                for t2 in [substitute(t, {("opt", "store_path"): ROOT}) for t in cs]:
                    c = classify(t2)
                    inside = tag(t2) == "join" and is_rooted(t2) and len(t2[1]) >= 3    # something below <store>/<entity>/
                    if inside or base_class(c).cls in ("TMP", "OBJ", "CIDREFS", "PIDREFS", "META", "MARKER", "METADIR", "TMPDIR", "ENTITYDIR", "CONFIG", "FALLBACK"):
                        rg20.fail(ev.func, ev.node, f"the client itself performs {ev.kind} ({ev.prim}) on {c!r} inside the store: an effect no API call has, "
                                  "and one that bypasses the API's claims (a concurrent call's temp file, reference or object can be hit)", A.p.loc(ev.func, ev.node))
    rg20.ob()
    rules.append(rg20)

    rh20 = Rule("C20", "C20.h", "the command line reaches the option variables verbatim: the ArgumentParser enables no feature that re-interprets a token "
                "(argument files `fromfile_prefix_chars`, other `prefix_chars`, a parser-wide `argument_default`, inherited `parents`), and no value "
                "option narrows or reshapes what the API accepts (`choices`, `nargs`, `const`, a `type` other than int / str)", floor=1)
    PARSER_DEFAULTS = {"fromfile_prefix_chars": None, "prefix_chars": "-", "argument_default": None, "conflict_handler": "error"}
    nparsers = 0
    for f_ in [f for f in A.p.funcs.values() if f.module.name == "hashstoreclient"]:
        for c in ast.walk(f_.node):
            if not isinstance(c, ast.Call):
                continue
            if norm(c.func).split(".")[-1] == "ArgumentParser":
                nparsers += 1
                rh20.ob()
                rh20.inst(f"{f_.qual}:{c.lineno} ArgumentParser({', '.join(k.arg or '**' for k in c.keywords)})")
                for k in c.keywords:
                    if k.arg in PARSER_DEFAULTS and not (isinstance(k.value, ast.Constant) and k.value.value == PARSER_DEFAULTS[k.arg]):
                        rh20.fail(f_, f"{k.arg}={norm(k.value)}", f"ArgumentParser({k.arg}={norm(k.value)}): tokens of the command line - option VALUES included - are "
                                  "re-interpreted by the parser (e.g. a pid or format id that starts with the prefix character is read as an argument file / "
                                  "an option), so an identifier the API accepts never reaches it", A.p.loc(f_, k.value))
                    if k.arg == "parents" and not (isinstance(k.value, (ast.List, ast.Tuple)) and not k.value.elts):
                        rh20.fail(f_, f"parents={norm(k.value)}", "options inherited from another parser are not in the option table the other C20 rules check",
                                  A.p.loc(f_, k.value))
        # option declarations: add_argument(...) keywords, and rows of a declaration table (dict literals with a "dest" key)
        decls = [(norm(c.args[0]) if c.args else "?", {k.arg: k.value for k in c.keywords if k.arg}, c) for c in ast.walk(f_.node)
                 if isinstance(c, ast.Call) and isinstance(c.func, ast.Attribute) and c.func.attr == "add_argument"]
        decls += [(norm(dict(zip([k.value for k in d.keys if isinstance(k, ast.Constant)], d.values)).get("dest", d)), {k.value: v for k, v in zip(d.keys, d.values) if isinstance(k, ast.Constant)}, d)
                  for d in ast.walk(f_.node) if isinstance(d, ast.Dict) and any(isinstance(k, ast.Constant) and k.value == "dest" for k in d.keys)]
        for name_, kw, node_ in decls:
            if not kw:
                continue
            act = kw["action"].value if "action" in kw and isinstance(kw["action"], ast.Constant) else None
            rh20.ob()
            rh20.inst(f"{f_.qual}:{node_.lineno} option {name_}")
            for bad in ("choices", "nargs", "const"):
                if bad in kw and act in (None, "store"):
                    rh20.fail(f_, f"option {name_}: {bad}={norm(kw[bad])}", f"`{bad}` on a value option: values the API accepts are "
                              "refused by the client, or reach the API as a list / constant instead of the string given", A.p.loc(f_, kw[bad]))
            if "type" in kw and norm(kw["type"]) not in ("int", "str"):
                rh20.fail(f_, f"option {name_}: type={norm(kw['type'])}", "the option value is transformed by a `type` callable before it "
                          "reaches the API: the call is made with another value than the one given", A.p.loc(f_, kw["type"]))
    if not nparsers:
        raise AnalysisError("no ArgumentParser construction found in hashstoreclient.py (anchor lost)")
    rules.append(rh20)

    ri20 = Rule("C20", "C20.i", "the client's own housekeeping cannot make a verb fail where the API call succeeds: a file the client creates for itself "
                "(its log) is created in a way that tolerates a concurrent client having just created it (no exclusive create behind a separate "
                "existence test, unless FileExistsError is handled)", floor=1)
    for ev in it.events:
        if ev.prim == "open" and ev.kind in ("CREATE", "WRITE") and ev.func.module.name == "hashstoreclient":
            ri20.ob()
            ri20.inst(f"{ev.func.qual}:{ev.line} open(mode={ev.extra.get('mode')!r})")
            if str(ev.extra.get("mode") or "").startswith("x"):
                tolerant = any(in_body(ev.node, t.body) and any((h_.type is None or any(x in ast.unparse(h_.type) for x in ("FileExistsError", "OSError", "Exception")))
                                                                and not any(isinstance(x, ast.Raise) for b_ in h_.body for x in ast.walk(b_)) for h_ in t.handlers)
                               for t in enclosing(ev.node, ast.Try))
                if not tolerant:
                    ri20.fail(ev.func, ev.node, "the client creates its own file with open(..., 'x') after a separate existence test: of two clients started together on a store "
                              "without that file, the second dies with FileExistsError before it reaches the API - its verb has no effect although the API call would succeed",
                              A.p.loc(ev.func, ev.node))
    rules.append(ri20)

    rf = Rule("C20", "C20.f", "the create-store verb always hands the command-line properties to the API constructor "
              "(whether they are acceptable for an existing store is the API's decision, not the client's)", floor=1)
    creates = [c for c in it.calls if c["callee"] == "HashStoreClient.__init__" and any(
        tag(t) == "dictlit" and any(any(tag(x) == "int" or tag(x) == "opt" for x in vv) for _, vv in t[1]) for a in c["args"] for t in a)]
    creates = [c for c in creates if any(tag(t) == "dictlit" and any(k == C("store_depth") and any("depth" in str(x) for x in vv) for k, vv in t[1])
                                          for a in c["args"] for t in a)]
    rf.ob()
    for c in creates:
        rf.inst(f"main:{c['node'].lineno} {norm(c['node'])} under {len(c['state'].facts)} fact(s)")
        fs = c["state"].facts
        if F.implied(fs, ("truthy", V(("opt", "create_hashstore")))) is not True:
            rf.fail(main, c["node"], "the store is created from command-line properties although -chs was not given", A.p.loc(main, c["node"]))
        extra_guards = [f for f, pol in fs if f[0] == "probe"]
        if extra_guards:
            rf.fail(main, c["node"], "with -chs the command-line properties reach the API only under a file-system condition "
                    f"({extra_guards[0][1]}(...)): for an existing store the API's property-mismatch refusal is bypassed and the verb silently runs "
                    "with the old configuration", A.p.loc(main, c["node"]))
    if not creates:
        rf.fail(main, "HashStoreClient(props)", "-chs no longer constructs the store from the command-line properties", A.p.loc(main, main.node))
    rules.append(rf)

    re_ = Rule("C20", "C20.e", "the client opens the store with exactly the API's required keys; depth and width are "
               "integers on both client paths", floor=2)
    req = [e.value for e in A.p.class_attr_assigns(CLS)["property_required_keys"].elts]
    lsp = A.p.func("HashStoreParser.load_store_properties")
    keys = []
    for n in ast.walk(lsp.node):
        if isinstance(n, ast.List) and n.elts and all(isinstance(e, ast.Constant) for e in n.elts):
            keys = [e.value for e in n.elts]
    re_.inst(f"load_store_properties keys {keys}")
    re_.ob()
    if sorted(keys + ["store_path"]) != sorted(req):
        re_.fail(lsp, "property_required_keys", f"client loads {keys} (+store_path); the API requires {req}", A.p.loc(lsp, lsp.node))
    if not any(isinstance(c, ast.Call) and norm(c.func) == "int" for c in ast.walk(lsp.node)):
        re_.fail(lsp, "int(yaml_data[key])", "depth/width read from hashstore.yaml are not converted to int", A.p.loc(lsp, lsp.node))
    for d in [n for n in ast.walk(main.node) if isinstance(n, ast.Dict) and n.keys and all(isinstance(k, ast.Constant) for k in n.keys)]:
        ks = [k.value for k in d.keys]
        if "store_depth" in ks:
            re_.inst(f"main -chs props keys {ks}")
            re_.ob()
            if sorted(ks) != sorted(req):
                re_.fail(main, d, f"-chs builds properties {ks}; the API requires {req}", A.p.loc(main, d))
            for k, v in zip(d.keys, d.values):
                if k.value in ("store_depth", "store_width") and not (isinstance(v, ast.Call) and norm(v.func) == "int"):
                    re_.fail(main, d, f"-chs passes {k.value} as a string", A.p.loc(main, d))
                want = {"store_path": "store_path", "store_depth": "depth", "store_width": "width", "store_algorithm": "algorithm",
                        "store_metadata_namespace": "formatid"}[k.value] if k.value in req else None
                if want and f"'{want}'" not in norm(v):
                    re_.fail(main, d, f"-chs takes {k.value} from `{norm(v)}`", A.p.loc(main, d))
    rules.append(re_)
    return rules
