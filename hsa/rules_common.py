"""Helpers shared by the rule modules."""

from __future__ import annotations

import ast

from .engine import Analysis, CLS, PUBLIC_API
from .loader import norm
from .terms import show, tag, PathClass

SECONDARY = {"BOGUS", "FALLBACK", "RAWID", "UNKNOWN", "RELATIVE", "STRING"}
MUT = ("CREATE", "WRITE", "RENAME", "REMOVE")


def primary(classes):
    """drop the fall-back candidates of the overloaded look-up helpers when a primary
    candidate exists (DESIGN §2.2 A2, idiom 2)"""
    prim = []
    sec = []
    for c in classes:
        base = c
        while base.cls in ("MARKER", "SIBLING", "PARENTDIR") and isinstance(base.key, PathClass):
            base = base.key
        (sec if base.cls in SECONDARY else prim).append(c)
    return prim if prim else sec


def base_class(c):
    while c.cls in ("MARKER", "SIBLING") and isinstance(c.key, PathClass):
        c = c.key
    return c


def lock_alts(key):
    if tag(key) == "alt":
        return set(key[1])
    return {key}


def key_matches(lock, c):
    """does lock (cls, key) guard the resource of PathClass c (same key term)?"""
    lcls, lkey = lock
    alts = lock_alts(lkey)
    if c.cls == "META":
        return c.extra in alts
    return c.key in alts


def showlock(l):
    return f"{l[0]}({show(l[1])})"


def site_text(ev):
    n = ev.extra.get("site_node")
    return norm(n) if n is not None else ev.prim


def site_akey(ev, resource):
    """what the site does, independent of the names of locals: callee, effect kind, file class"""
    n = ev.extra.get("site_node")
    callee = norm(n.func) if isinstance(n, ast.Call) else ev.prim
    return f"{callee} {ev.kind} {resource}"


def site_func(ev):
    f = ev.extra.get("site_func")
    return f.qual if f is not None else ev.func.qual


def site_loc(A, ev):
    f = ev.extra.get("site_func") or ev.func
    n = ev.extra.get("site_node") or ev.node
    return A.p.loc(f, n)


def mutation_events(A: Analysis, entries, modes=("th", "mp")):
    for m in modes:
        for e in entries:
            it = A.api(e, m)
            for ev in it.events:
                if ev.kind in MUT:
                    yield it, ev


def resource_hits(ev, wanted):
    """(role index, PathClass) pairs of the event whose (base) class is in wanted"""
    out = []
    for i, cs in enumerate(ev.classes):
        if ev.prim.startswith("file.") and i > 0:
            continue  # data argument of write()
        for c in primary(cs):
            if c.cls in wanted:
                out.append((i, c))
    return out


def func_nodes(f, types):
    """nodes of the given types lexically owned by function f (not by nested defs)"""
    out = []
    stack = list(ast.iter_child_nodes(f.node))
    while stack:
        n = stack.pop()
        if isinstance(n, (ast.FunctionDef, ast.AsyncFunctionDef, ast.ClassDef, ast.Lambda)):
            continue
        if isinstance(n, types):
            out.append(n)
        stack.extend(ast.iter_child_nodes(n))
    return sorted(out, key=lambda n: (n.lineno, n.col_offset))


def calls_in(node, name_pred):
    out = []
    for n in ast.walk(node):
        if isinstance(n, ast.Call) and name_pred(ast.unparse(n.func)):
            out.append(n)
    return out


def ends_in_raise(stmts):
    """every path through the statement list ends in `raise` (syntactic, conservative)"""
    if not stmts:
        return False
    last = stmts[-1]
    if isinstance(last, ast.Raise):
        return True
    if isinstance(last, ast.If):
        return bool(last.orelse) and ends_in_raise(last.body) and ends_in_raise(last.orelse)
    if isinstance(last, ast.Try):
        if last.finalbody and ends_in_raise(last.finalbody):
            return True
        ok = ends_in_raise(last.body + last.orelse) if last.orelse else ends_in_raise(last.body)
        return ok and all(ends_in_raise(h.body) for h in last.handlers)
    if isinstance(last, ast.With):
        return ends_in_raise(last.body)
    return False
