"""Helpers shared by the rule modules."""

from __future__ import annotations

import ast

from .engine import Analysis, CLS, PUBLIC_API
from .loader import norm
from .terms import show, tag, PathClass

SECONDARY = {"BOGUS", "FALLBACK", "RAWID", "UNKNOWN", "RELATIVE", "STRING"}
MUT = ("CREATE", "WRITE", "RENAME", "REMOVE")


def primary(classes):
    """drop the fall-back candidates of the overloaded look-up helpers when a primary
    candidate exists (DESIGN §2.2 A2, idiom 2)"""
    prim = []
    sec = []
    for c in classes:
        base = c
        while base.cls in ("MARKER", "SIBLING", "PARENTDIR") and isinstance(base.key, PathClass):
            base = base.key
        (sec if base.cls in SECONDARY else prim).append(c)
    return prim if prim else sec


def base_class(c):
    while c.cls in ("MARKER", "SIBLING") and isinstance(c.key, PathClass):
        c = c.key
    return c


def lock_alts(key):
    if tag(key) == "alt":
        return set(key[1])
    return {key}


def key_matches(lock, c):
    """does lock (cls, key) guard the resource of PathClass c (same key term)?"""
    lcls, lkey = lock
    alts = lock_alts(lkey)
    if c.cls == "META":
        return c.extra in alts
    return c.key in alts


def showlock(l):
    return f"{l[0]}({show(l[1])})"


def site_text(ev):
    n = ev.extra.get("site_node")
    return norm(n) if n is not None else ev.prim


def site_akey(ev, resource):
    """what the site does, independent of the names of locals: callee, effect kind, file class"""
    n = ev.extra.get("site_node")
    callee = norm(n.func) if isinstance(n, ast.Call) else ev.prim
    return (f"{callee} {ev.kind} {resource}", f"{ev.kind} {resource}")


def site_func(ev):
    f = ev.extra.get("site_func")
    return f.qual if f is not None else ev.func.qual


def site_loc(A, ev):
    f = ev.extra.get("site_func") or ev.func
    n = ev.extra.get("site_node") or ev.node
    return A.p.loc(f, n)


def mutation_events(A: Analysis, entries, modes=("th", "mp")):
    for m in modes:
        for e in entries:
            it = A.api(e, m)
            for ev in it.events:
                if ev.kind in MUT:
                    yield it, ev


def resource_hits(ev, wanted):
    """(role index, PathClass) pairs of the event whose (base) class is in wanted"""
    out = []
    for i, cs in enumerate(ev.classes):
        if ev.prim.startswith("file.") and i > 0:
            continue  # data argument of write()
        for c in primary(cs):
            if c.cls in wanted:
                out.append((i, c))
    return out


def func_nodes(f, types):
    """nodes of the given types lexically owned by function f (not by nested defs)"""
    out = []
    stack = list(ast.iter_child_nodes(f.node))
    while stack:
        n = stack.pop()
        if isinstance(n, (ast.FunctionDef, ast.AsyncFunctionDef, ast.ClassDef, ast.Lambda)):
            continue
        if isinstance(n, types):
            out.append(n)
        stack.extend(ast.iter_child_nodes(n))
    return sorted(out, key=lambda n: (n.lineno, n.col_offset))


def calls_in(node, name_pred):
    out = []
    for n in ast.walk(node):
        if isinstance(n, ast.Call) and name_pred(ast.unparse(n.func)):
            out.append(n)
    return out


def ends_in_raise(stmts):
    """every path through the statement list ends in `raise` (syntactic, conservative)"""
    if not stmts:
        return False
    last = stmts[-1]
    if isinstance(last, ast.Raise):
        return True
    if isinstance(last, ast.If):
        return bool(last.orelse) and ends_in_raise(last.body) and ends_in_raise(last.orelse)
    if isinstance(last, ast.Try):
        if last.finalbody and ends_in_raise(last.finalbody):
            return True
        ok = ends_in_raise(last.body + last.orelse) if last.orelse else ends_in_raise(last.body)
        return ok and all(ends_in_raise(h.body) for h in last.handlers)
    if isinstance(last, ast.With):
        return ends_in_raise(last.body)
    return False


def expand_locals(funcnode, expr, depth=6):
    """a copy of `expr` in which every local that the function assigns exactly once (`name = value`, a plain
    statement of the function body) is replaced by its value: `a = f(x); b = g(a); return h(b)` reads as
    `h(g(f(x)))` whatever the intermediate names are.  Positions are kept for reports."""
    assigns = {}
    counts = {}
    for n in ast.walk(funcnode):
        if isinstance(n, ast.Name) and isinstance(n.ctx, ast.Store):
            counts[n.id] = counts.get(n.id, 0) + 1
    for st in ast.walk(funcnode):
        if isinstance(st, ast.Assign) and len(st.targets) == 1 and isinstance(st.targets[0], ast.Name):
            assigns[st.targets[0].id] = st.value
    params = {a.arg for a in funcnode.args.args + funcnode.args.kwonlyargs}

    class Sub(ast.NodeTransformer):
        def __init__(self, d):
            self.d = d

        def visit_Name(self, n):
            if isinstance(n.ctx, ast.Load) and n.id in assigns and counts.get(n.id) == 1 and n.id not in params and self.d > 0:
                import copy
                v = ast.parse(ast.unparse(assigns[n.id]), mode="eval").body
                for x in ast.walk(v):
                    ast.copy_location(x, assigns[n.id]) if not hasattr(x, "lineno") else None
                    x.lineno = getattr(assigns[n.id], "lineno", 0)
                    x.col_offset = getattr(assigns[n.id], "col_offset", 0)
                return Sub(self.d - 1).visit(v)
            return n

    e = ast.parse(ast.unparse(expr), mode="eval").body
    for x in ast.walk(e):
        x.lineno = getattr(expr, "lineno", 0)
        x.col_offset = getattr(expr, "col_offset", 0)
    return Sub(depth).visit(e)


def call_arg(call, index, name):
    """the argument expression a call passes for the parameter at position `index` (0-based, self excluded)
    named `name` - given positionally or by keyword; None when absent"""
    if index < len(call.args) and not any(isinstance(a, ast.Starred) for a in call.args[:index + 1]):
        return call.args[index]
    for k in call.keywords:
        if k.arg == name:
            return k.value
    return None


def digest_checked_before_delete(ev):
    """the failed-move handler may remove what sits at the permanent address only after it has read and hashed that file
    (get_hex_digest returned on every path to the removal) and found the digest different from the one just computed"""
    if ("call", f"{CLS}.get_hex_digest") not in ev.done:
        return False
    from . import facts as F_
    from .terms import subterms
    # ... and the removal is on the branch where the freshly computed digest of that file DIFFERS from the digest of the content
    for f_, pol in ev.facts:
        for a_ in F_.atoms_of(f_):
            if a_[0] == "cmp" and a_[1] in ("==", "!="):
                sides = [a_[2], a_[3]]
                for i in (0, 1):
                    if sides[i] and all(tag(t) == "hashof" for t in sides[i]) and sides[1 - i] \
                            and all(tag(t) == "item" and tag(t[1]) == "dictzip" for t in sides[1 - i]):
                        v = F_.implied(ev.facts, a_)
                        if v is not None and v == (a_[1] == "!="):
                            return True
    return False


def rules_of(A, prop):
    """the rule objects of another property's checker, computed once per analysis (rules shared between properties)"""
    cache = A.__dict__.setdefault("_rule_cache", {})
    if prop not in cache:
        from .__main__ import registry
        cache[prop] = registry()[prop](A, "quick")
    return cache[prop]
