"""CLI:  python -m hsa check <Cnn|all> [--tier quick|thorough]

exit 0  property held on everything analysed (KNOWN-FINDING lines possible)
exit 1  VIOLATION property=<id> replay=<path>
exit 2  ANALYSIS-ERROR (the analysis itself could not run soundly; never a verdict)
"""

from __future__ import annotations

import argparse
import os
import sys
import time
import traceback

from .report import load_known, split_known, write_evidence, write_findings
from .terms import AnalysisError

ASSUMPTIONS = [
    "ast parses what the interpreter would run; no exec/eval/metaclass/__getattr__/behavioural decorators in "
    "filehashstore.py / hashstore.py (checked by the loader on every run)",
    "primitive table: os/shutil/io/pathlib/tempfile/fcntl calls have their documented effect kinds; shutil.move "
    "inside one directory tree is rename(2)",
    "logging, f-strings and literal-format `%` formatting do not raise (a non-literal format string does); an identifier claim does not raise after appending",
    "exceptional edges are over-approximated (any fallible call may raise); only 'on every path' rules are used",
    "library exceptions are never instances of the repository's own exception classes",
]


def registry():
    from . import rules_locks, rules_paths, rules_data
    reg = {}
    for mod in (rules_locks, rules_paths, rules_data):
        for name in dir(mod):
            if name.startswith("check_C"):
                reg[name[6:]] = getattr(mod, name)
    return reg


def explanation(prop, rules):
    return (
        f"Static analysis of /repo/src/hashstore (stdlib ast; nothing imported or executed). {len(rules)} rule(s) of "
        f"DESIGN.md §3 for {prop} were evaluated on the current working tree: structural rules over the syntax tree "
        "and path rules over an abstract interpretation that inlines every call chain from each public entry point, "
        "in both synchronisation modes, with exceptional edges. Only the structural clauses listed in the rule "
        "statements are decided; the value-level remainder of the property is not (DESIGN §4.2)."
    )


def run_property(prop, tier, A, seed):
    t0 = time.time()
    reg = registry()
    if prop not in reg:
        print(f"ANALYSIS-ERROR property={prop} no checker registered")
        return 2
    known = load_known()
    try:
        from .rules_common import rules_of
        rules = rules_of(A, prop)      # computed once per analysis, also when another property shares one of these rules
        problems = A.problems()
        if problems:
            for p in problems[:20]:
                print(f"ANALYSIS-ERROR property={prop} {p}")
            return 2
        new_now, _o = split_known([f for r in rules for f in r.findings], [k for k in known.get("known", []) if k.get("property") == prop])
        for r in rules:
            # r.floor = instances confirmed by hand at the pinned commit.  A refactoring may
            # legitimately merge duplicated sites, so the run is refused only when a rule has
            # lost more than two thirds of them (or all): it then no longer sees its anchors.
            need = max(1, (r.floor + 2) // 3) if r.floor else 0
            if len(r.instances) < need and new_now:
                # a rule lost its anchors, but other rules of the property already report a violation: the verdict stands
                print(f"note: rule {r.rid} matched {len(r.instances)} instance(s) (floor {r.floor}): anchors lost")
                continue
            if len(r.instances) < need:
                print(f"ANALYSIS-ERROR property={prop} rule {r.rid} matched {len(r.instances)} instance(s); {r.floor} were "
                      f"confirmed by hand and at least {need} are required — the rule lost its anchors (vacuous pass refused)")
                return 2
        selftest = None
        if new_now:
            # the tree under analysis violates the property: that is the verdict.  The self-test compares variants / twins of
            # a tree on which the property holds (every twin of a violating tree would "alarm"), so it is not run.
            selftest = {"skipped": "violation reported on the analysed tree; the self-test presupposes a tree on which the property holds"}
        elif tier == "quick" and os.environ.get("HSA_NO_CANARY") != "1":
            from .selftest import run_canary
            selftest = run_canary(prop, A)
            if selftest.get("missed"):
                print(f"ANALYSIS-ERROR property={prop} self-test: {selftest['missed'][0]}")
                return 2
        elif tier == "thorough":
            from .selftest import run_selftest
            selftest = run_selftest(prop, A)
            if selftest.get("missed"):
                for m in selftest["missed"][:10]:
                    print(f"ANALYSIS-ERROR property={prop} self-test: {m}")
                return 2
    except AnalysisError as e:
        print(f"ANALYSIS-ERROR property={prop} {e}")
        return 2
    except Exception:  # noqa: BLE001
        tb = traceback.format_exc().strip().splitlines()
        print(f"ANALYSIS-ERROR property={prop} internal error: {tb[-1]}")
        for l in tb[-8:]:
            print("   " + l)
        return 2
    findings = [f for r in rules for f in r.findings]
    new, old = split_known(findings, [k for k in known.get("known", []) if k.get("property") == prop])
    for r in rules:
        print(f"  {r.rid}: {len(r.instances)} instance(s), {r.obligations} obligation(s), {len(r.findings)} finding(s)")
    for f, k in old:
        print(f"KNOWN-FINDING: property={prop} {f.rule} {f.func}: {k.get('what', f.message)}")
    extra = {
        "explanation": explanation(prop, rules),
        "exhaustive": True,
        "cmd": f"/venv/bin/python -m hsa check {prop} --tier {tier}",
        "trusted_base": ["CPython ast module", "hsa primitive table (hsa/prims.py)", "README.md / hashstore.py docstrings as specification"],
        "assumptions": ASSUMPTIONS,
        "known_findings_listed": len(old),
        "modes": ["th", "mp"],
    }
    if selftest is not None:
        extra["selftest"] = selftest
    viol = len(new)
    write_evidence(prop, tier, seed, rules, time.time() - t0, A.p.digest, extra, viol)
    if new:
        path = write_findings(prop, new)
        for f in new:
            print("  " + f.line())
        print(f"VIOLATION property={prop} replay={path}")
        return 1
    print(f"OK property={prop} tier={tier} rules={len(rules)} wall={time.time() - t0:.2f}s")
    return 0


def main(argv=None):
    ap = argparse.ArgumentParser(prog="hsa")
    sub = ap.add_subparsers(dest="cmd", required=True)
    c = sub.add_parser("check")
    c.add_argument("prop")
    c.add_argument("--tier", default=os.environ.get("VERIF_TIER", "quick"), choices=["quick", "thorough"])
    c.add_argument("--root", default="/repo/src/hashstore")
    args = ap.parse_args(argv)
    seed = int(os.environ.get("VERIF_SEED", "0") or 0)
    try:
        from .engine import Analysis
        A = Analysis(root=args.root)
    except AnalysisError as e:
        print(f"ANALYSIS-ERROR property={args.prop} {e}")
        return 2
    except Exception:  # noqa: BLE001
        print(f"ANALYSIS-ERROR property={args.prop} internal error: {traceback.format_exc().strip().splitlines()[-1]}")
        return 2
    if args.prop == "all":
        rc = 0
        for p in sorted(registry()):
            rc = max(rc, run_property(p, args.tier, A, seed))
        return rc
    return run_property(args.prop, args.tier, A, seed)


if __name__ == "__main__":
    sys.exit(main())
