"""Findings, rule results, known findings, evidence files, exit codes."""

from __future__ import annotations

import ast
import json
import os
import time

from .loader import norm

VERIF = os.path.dirname(os.path.dirname(os.path.abspath(__file__)))
KNOWN = os.path.join(VERIF, "known_findings.json")
EVID = os.path.join(VERIF, "evidence")


class Finding:
    def __init__(self, prop, rule, func, construct, message, loc="", detail=None, akey=None):
        # akey may be (akey, ekey): the second, coarser identity names only the effect (kind + file class)
        self.abstract, self.effect = akey if isinstance(akey, tuple) else (akey, None)
        self.prop = prop
        self.rule = rule
        self.func = func if isinstance(func, str) else getattr(func, "qual", str(func))
        self.construct = norm(construct) if not isinstance(construct, str) else " ".join(construct.split())
        self.message = message
        self.loc = loc
        self.detail = detail or {}

    @property
    def key(self):
        return f"{self.rule}|{self.func}|{self.construct}"

    @property
    def akey(self):
        """rename-insensitive identity of the construct (what it does to which class of file), when the rule supplies one"""
        return f"{self.rule}|{self.func}|{self.abstract}" if self.abstract else None

    @property
    def ekey(self):
        """helper-insensitive identity: the effect on the class of file, in this function (the move was wrapped in a helper)"""
        return f"{self.rule}|{self.func}|{self.effect}" if self.effect else None

    def line(self):
        return f"{self.loc}  {self.rule}  {self.func}  `{self.construct[:110]}` — {self.message}"

    def to_json(self):
        return {"property": self.prop, "rule": self.rule, "function": self.func, "construct": self.construct,
                "message": self.message, "loc": self.loc, "key": self.key, "akey": self.akey, "ekey": self.ekey, "detail": self.detail}


class Rule:
    """One rule of the catalogue (DESIGN §3) evaluated on this run."""

    def __init__(self, prop, rid, statement, floor=0):
        self.prop = prop
        self.rid = rid
        self.statement = statement
        self.floor = floor
        self.instances = []     # strings: what the rule quantified over on this run
        self.obligations = 0    # instance x context obligations evaluated
        self.nontrivial = set()
        self.findings = []
        self._seen = set()
        self.notes = []

    def inst(self, text, nontrivial=True):
        if text not in self.instances:
            self.instances.append(text)
        if nontrivial:
            self.nontrivial.add(text)

    def ob(self, n=1):
        self.obligations += n

    def fail(self, func, construct, message, loc="", detail=None, akey=None):
        f = Finding(self.prop, self.rid, func, construct, message, loc, detail, akey)
        if f.key in self._seen:
            return
        self._seen.add(f.key)
        self.findings.append(f)

    def summary(self):
        return {"rule": self.rid, "statement": self.statement, "instances": len(self.instances),
                "floor": self.floor, "obligations": self.obligations, "findings": len(self.findings)}


def load_known():
    if not os.path.exists(KNOWN):
        return {"known": [], "fixed": []}
    with open(KNOWN, encoding="utf-8") as fh:
        return json.load(fh)


def split_known(findings, known_entries):
    """partition findings into (new, [(finding, known entry)]).  A known entry suppresses the finding with
    exactly its key; or, when the source text of the construct changed (a renamed local), at most ONE
    finding with its abstract key - a second construct doing the same thing is reported."""
    by_key = {k["key"]: k for k in known_entries}
    by_akey = {k["akey"]: k for k in known_entries if k.get("akey")}
    new, old, used = [], [], set()
    for f in findings:
        if f.key in by_key:
            old.append((f, by_key[f.key]))
            used.add(id(by_key[f.key]))
    by_ekey = {k["ekey"]: k for k in known_entries if k.get("ekey")}
    rest = []
    for f in findings:
        if f.key in by_key:
            continue
        k = by_akey.get(f.akey) if f.akey else None
        if k is not None and id(k) not in used:
            used.add(id(k))
            old.append((f, k))
        else:
            rest.append(f)
    for f in rest:
        # the same effect on the same class of file in the same function, the known construct itself no longer there
        # (the call was wrapped in a helper): still at most one finding per entry
        k = by_ekey.get(f.ekey) if f.ekey else None
        if k is not None and id(k) not in used:
            used.add(id(k))
            old.append((f, k))
        else:
            new.append(f)
    return new, old


def loc_of(program, func, node):
    return program.loc(func, node) if node is not None else ""


def write_evidence(prop, tier, seed, rules, wall, digest, extra, violations, analysis_errors=()):
    os.makedirs(EVID, exist_ok=True)
    obligations = sum(r.obligations for r in rules)
    failed_obl = sum(len(r.findings) for r in rules)
    nontriv = set()
    for r in rules:
        for x in r.nontrivial:
            nontriv.add((r.rid, x))
    samples = []
    for r in rules:
        for x in r.instances[:4]:
            samples.append({"rule": r.rid, "instance": x})
    cov = {
        "explanation": extra.get("explanation", ""),
        "evaluations": max(obligations, 1) if rules else 0,
        "distinct_nontrivial": len(nontriv),
        "rule": "; ".join(f"{r.rid}: {r.statement}" for r in rules) +
                " | an instance is one construct the rule quantifies over (call site, handler, lock operation, "
                "path-forming expression, table entry) found in /repo's current source; it is non-trivial when the "
                "rule had something to decide about it (distinct by rule id + construct)",
        "samples": samples[:60],
        "obligations": obligations,
        "discharged": obligations - failed_obl if obligations >= failed_obl else 0,
        "exhaustive": bool(extra.get("exhaustive", False)),
        "rules": [r.summary() for r in rules],
        "source_digest": digest,
        "findings": [f.to_json() for r in rules for f in r.findings],
        "trusted_base": extra.get("trusted_base", []),
        "checker_cmd": extra.get("cmd", ""),
    }
    for k, v in extra.items():
        if k not in cov:
            cov[k] = v
    ev = {
        "property_id": prop,
        "tier": tier,
        "seed": seed,
        "level": "other",
        "coverage": cov,
        "assumptions": extra.get("assumptions", []),
        "wall_s": round(wall, 3),
        "violations": violations,
    }
    path = os.path.join(EVID, f"{prop}.json")
    tmp = path + ".tmp"
    with open(tmp, "w", encoding="utf-8") as fh:
        json.dump(ev, fh, indent=1, sort_keys=False, default=str)
    os.replace(tmp, path)
    return path


def write_findings(prop, findings):
    os.makedirs(EVID, exist_ok=True)
    path = os.path.join(EVID, f"{prop}.findings.json")
    with open(path, "w", encoding="utf-8") as fh:
        json.dump([f.to_json() for f in findings], fh, indent=1, default=str)
    return path
