"""Rules for C07, C08, C12, C16 (synchronisation discipline)."""

from __future__ import annotations

import ast
import copy
import re

from .engine import Analysis, CLS, PUBLIC_API
from .loader import norm
from .locks import is_logging_stmt, logger_names_in, stem, suffix, self_attr
from .report import Rule
from .rules_common import rules_of
from .rules_common import (MUT, primary, key_matches, showlock, site_text, site_func, site_loc, site_akey,
                           mutation_events, resource_hits, func_nodes)
from .terms import AnalysisError, show, showv, tag
from . import facts as F

OBJ_ENTRIES = ["store_object", "tag_object", "delete_object", "delete_if_invalid_object"]
META_ENTRIES = ["store_metadata", "retrieve_metadata", "delete_metadata", "delete_object"]
GUARDS_OF = {"OBJ": ("OBJ", "CIDREFS"), "CIDREFS": ("CIDREFS",), "PIDREFS": ("PIDREFS",)}


# ---------------------------------------------------------------------------------------
def lockset_rule(A, rule, entries, resources, modes=("th", "mp")):
    """Eraser-style write lockset per resource class (C07.a / C12.c)."""
    assoc = {}
    for R in resources:
        sites = {}
        for it, ev in mutation_events(A, entries, modes):
            for i, c in resource_hits(ev, {R}):
                held = frozenset(l[0] for l in ev.held_must if key_matches(l, c))
                k = (site_func(ev), site_text(ev))
                rec = sites.setdefault(k, {"locks": None, "ev": ev, "n": 0, "entries": set()})
                rec["locks"] = held if rec["locks"] is None else (rec["locks"] & held)
                rec["n"] += 1
                rec["entries"].add(ev.entry.split(".")[-1])
                rule.ob()
        for (fn, tx), rec in sorted(sites.items()):
            rule.inst(f"{R}: {fn}: `{tx[:70]}` holds {{{', '.join(sorted(rec['locks']))}}} (entries {', '.join(sorted(rec['entries']))})")
        if not sites:
            continue
        common = None
        for rec in sites.values():
            common = rec["locks"] if common is None else common & rec["locks"]
        if common:
            assoc[R] = sorted(common)[0]
            continue
        count = {}
        for rec in sites.values():
            for l in rec["locks"]:
                count[l] = count.get(l, 0) + 1
        if not count:
            for (fn, tx), rec in sorted(sites.items()):
                rule.fail(fn, tx, f"{R} is modified while no identifier lock keyed by the same identifier is held",
                          site_loc(A, rec["ev"]), akey=site_akey(rec["ev"], R))
            continue
        best = sorted(count, key=lambda l: (-count[l], l))[0]
        assoc[R] = best
        for (fn, tx), rec in sorted(sites.items()):
            if best not in rec["locks"]:
                rule.fail(fn, tx,
                          f"{R} is modified without the `{best}` claim that {count[best]} other site(s) hold "
                          f"(held here: {sorted(rec['locks']) or 'none'}): no common lock protects this file",
                          site_loc(A, rec["ev"]), {"resource": R, "entries": sorted(rec["entries"])}, akey=site_akey(rec["ev"], R))
    return assoc


def stale_check_rule(A, rule, entries, resources, guards_of, modes=("th", "mp")):
    """C07.b / C12.b: a mutation that depends on a probe must share a critical section of a
    same-key lock with at least one of its probes."""
    for it, ev in mutation_events(A, entries, modes):
        for i, c in resource_hits(ev, set(resources)):
            gcls = guards_of[c.cls]
            ckey = (c.key, c.extra) if c.cls == "META" else c.key
            guards = [p for p in ev.probes if p[0] in gcls and (p[1] == ckey or (p[0] != "META" and p[1] == c.key))]
            if not guards:
                continue
            rule.ob()
            rule.inst(f"{c.cls}: {site_func(ev)}: `{site_text(ev)[:70]}` guarded by {len(guards)} probe(s)")
            def in_section(gs):
                return any(l in ev.held_must and key_matches(l, c) for g in gs for l in g[2])

            ok = in_section(guards)
            # the guard of another class that decides the mutation (the reference list for an
            # object) must itself be (re-)evaluated inside the section
            other = [g for g in guards if g[0] != c.cls]
            if ok and other and not in_section(other):
                rule.fail(site_func(ev), site_text(ev),
                          f"{c.cls} is modified on the strength of a {other[0][0]} check made before the claim on the same identifier was "
                          "taken and not repeated inside it (the reference state can change between the check and the act)",
                          site_loc(A, ev), {"resource": c.cls, "entry": ev.entry}, akey=site_akey(ev, c.cls))
            if not ok:
                rule.fail(site_func(ev), site_text(ev),
                          f"{c.cls} is modified on the strength of an existence/content check made outside any "
                          f"claim on the same identifier (check-then-act is not atomic; held at the write: "
                          f"{sorted(showlock(l) for l in ev.held_must) or 'nothing'})",
                          site_loc(A, ev), {"resource": c.cls, "entry": ev.entry}, akey=site_akey(ev, c.cls))


# ---------------------------------------------------------------------------------------
def no_dir_removal_rule(A, rh):
    """C07.h / C04.h: REMOVE events whose primitive removes a directory"""
    seen_h = set()
    for it in A.all_api_runs(("th",)):
        for ev in it.events:
            if ev.kind != "REMOVE":
                continue
            kh = (ev.func.qual, ev.line)
            if kh in seen_h:
                continue
            seen_h.add(kh)
            rh.ob()
            rh.inst(f"{ev.func.qual}:{ev.line} {ev.prim}")
            if ev.prim in ("os.rmdir", "os.removedirs", "shutil.rmtree", "path.rmdir"):
                rh.fail(site_func(ev), site_text(ev), f"{ev.prim} removes a directory ({sorted(repr(c) for c in ev.classes[0])[:1]}): a concurrent call that has just "
                        "created / verified the directory and is about to move a file into it fails although it holds its own identifier's claim; "
                        "with rmtree (or a wrong emptiness test) the files of other identifiers below it are removed as well",
                        site_loc(A, ev))


# ---------------------------------------------------------------------------------------
def store_tag_claim_rule(A, rule):
    """C04.j / C07.k: store_object and delete_object exclude each other on a pid by a claim both take themselves; delete_object
    holds it at every change of the pid's reference files, so store_object must hold it at its own (the tagging happens inside the
    claim under which the object was written or found present)"""
    REFS = {"PIDREFS", "CIDREFS"}

    def ref_events(entry, m):
        it = A.api(entry, m)
        for ev in it.events:
            if ev.kind not in MUT:
                continue
            cls = {c.cls for cs in ev.classes for c in primary(cs)}
            if cls & REFS:
                yield it, ev

    for m in ("th", "mp"):
        common = None
        for it, ev in ref_events("delete_object", m):
            held = {l[0] for l in ev.held_must}
            common = held if common is None else common & held
        it_s = A.api("store_object", m)
        tag_q = A.impl_q("tag_object")
        own = {r["cls"] for r in it_s.lock_events if r["kind"] == "acquire" and tag_q not in r["ctx"] and r["func"].qual != tag_q}
        shared = sorted((common or set()) & own)
        rule.inst(f"[{m}] claims held at every reference change of delete_object and taken by store_object itself: {shared}")
        rule.ob()
        if not shared:
            f0 = A.impl("store_object")
            rule.fail(f0, "store/delete exclusion claim", "store_object takes no claim itself that delete_object holds at its reference changes: "
                      "the two calls no longer exclude each other on a pid", A.p.loc(f0, f0.node))
            continue
        for it, ev in ref_events("store_object", m):
            rule.ob()
            held = {l[0] for l in ev.held_must}
            rule.inst(f"[{m}] {site_func(ev)}: `{site_text(ev)[:60]}` holds {sorted(held)}")
            for need in shared:
                if need not in held:
                    rule.fail(site_func(ev), site_text(ev), f"store_object changes a reference file after it released (or before it took) its `{need}` claim on the pid: "
                              "a delete_object of the same pid can run between the decision that the object is present and the tagging, and the pid ends "
                              "up bound to an object that was removed (or the object is removed under a store that reports success)", site_loc(A, ev),
                              {"mode": m, "held": sorted(held)})


# ---------------------------------------------------------------------------------------
def release_held_rule(A, rg, entries, only_cls=None):
    """C07.f (and C03.g for the tagging claim): every release is reached with the claim held by this call"""
    for m in ("th", "mp"):
        for e in entries:
            it = A.api(e, m)
            for r in it.lock_events:
                if r["kind"] != "release" or (only_cls is not None and r["cls"] != only_cls):
                    continue
                rg.ob()
                rg.inst(f"{r['func'].qual}:{r['op'].node.lineno} release {r['cls']}")
                if r.get("held"):
                    continue
                labs = r.get("handling") or ()
                rg.fail(r["func"], r["op"].node, f"{showlock((r['cls'], r['key']))} is released on a path"
                        + (f" that carries {labs[-1]}" if labs else "") + f" of {e} on which this call never took it"
                        + (" (or has released it already; the release is written to tolerate that)" if r.get("conditional") else "") + ": "
                        "the claim removed belongs to another thread, whose exclusion is thereby lost", A.p.loc(r["func"], r["op"].node),
                        {"entry": e, "handling": list(labs)})


# ---------------------------------------------------------------------------------------
def shared_state_rule(A, rule):
    """the store object is shared by all threads / calls: nothing but construction may write
    its attributes (a per-call value parked in `self` is visible to, and overwritten by,
    every concurrent call)"""
    init_like = {f_.qual for f_ in A.p.ctor_funcs(CLS)}
    class_tables = {k for k, v in A.p.class_attr_assigns(CLS).items() if isinstance(v, (ast.Dict, ast.List, ast.Set))}

    def class_expr(e, aliases):
        t = ast.unparse(e)
        return t in ("type(self)", "self.__class__", CLS, "cls") or (isinstance(e, ast.Name) and e.id in aliases)

    # attributes of the CLASS are shared by every store object of the process: never assigned by a method (constructor included)
    for f in [fn for fn in A.p.funcs.values() if fn.cls == CLS]:
        aliases = {a.targets[0].id for a in ast.walk(f.node) if isinstance(a, ast.Assign) and len(a.targets) == 1 and isinstance(a.targets[0], ast.Name)
                   and ast.unparse(a.value) in ("type(self)", "self.__class__", CLS)}
        for n in ast.walk(f.node):
            tg = n.targets if isinstance(n, ast.Assign) else [n.target] if isinstance(n, (ast.AugAssign, ast.AnnAssign)) else []
            for t in tg:
                for x in ast.walk(t):
                    if isinstance(x, ast.Attribute) and isinstance(x.ctx, ast.Store) and class_expr(x.value, aliases):
                        rule.ob()
                        rule.inst(f"{f.qual}:{n.lineno} assigns the class attribute {x.attr}")
                        rule.fail(f, n, f"`{norm(n)[:70]}` writes an attribute of the class: the value is shared by every store object of the process - opening "
                                  "another store (another algorithm, another namespace) changes it under this one", A.p.loc(f, n))
            if isinstance(n, ast.Call) and isinstance(n.func, ast.Name) and n.func.id == "setattr" and n.args and class_expr(n.args[0], aliases):
                rule.ob()
                rule.fail(f, n, f"`{norm(n)[:70]}` writes an attribute of the class", A.p.loc(f, n))
    # containers that belong to the CLASS (tables in the class body), reached through the class or a local alias of it, are shared by
    # every store object and every call of the process: no method - the constructor included - mutates them
    def class_container(e):
        if isinstance(e, ast.Attribute) and e.attr in class_tables and (self_attr(e) or class_expr(e.value, set())):
            return e.attr
        return None

    for f in [fn for fn in A.p.funcs.values() if fn.cls == CLS]:
        for n in ast.walk(f.node):
            tgt, how = None, None
            if isinstance(n, ast.Call) and isinstance(n.func, ast.Attribute) and n.func.attr in (
                    "append", "extend", "insert", "remove", "pop", "clear", "update", "add", "discard", "setdefault", "popitem", "sort", "reverse"):
                tgt, how = n.func.value, f".{n.func.attr}()"
            elif isinstance(n, (ast.Assign, ast.AugAssign, ast.Delete)):
                for t in (n.targets if isinstance(n, (ast.Assign, ast.Delete)) else [n.target]):
                    if isinstance(t, ast.Subscript):
                        tgt, how = t.value, "item assignment / deletion"
            if tgt is None:
                continue
            a = class_container(tgt) if not self_attr(tgt) else None
            if a is None and isinstance(tgt, ast.Name):
                srcs = [x.value for x in ast.walk(f.node) if isinstance(x, ast.Assign) and len(x.targets) == 1 and isinstance(x.targets[0], ast.Name)
                        and x.targets[0].id == tgt.id]
                hit = [class_container(v) for v in srcs]
                if srcs and any(hit):
                    a = next(h for h in hit if h)
            if a is not None:
                rule.ob()
                rule.inst(f"{f.qual}:{n.lineno} mutates the class-level table {a}")
                rule.fail(f, n, f"`{norm(n)[:70]}` mutates `{a}`, a container defined in the class body (reached through the class or an alias, not a "
                          "copy): it is shared by every store object and every concurrent call of the process - one call's values show up in another's "
                          "result (e.g. in the hashstore.yaml another store is writing)", A.p.loc(f, n))
    # helpers called only while constructing
    for f in [fn for fn in A.p.funcs.values() if fn.cls == CLS]:
        for n in ast.walk(f.node):
            targets = []
            if isinstance(n, ast.Assign):
                targets = n.targets
            elif isinstance(n, (ast.AugAssign, ast.AnnAssign)):
                targets = [n.target]
            for t in targets:
                for x in ast.walk(t):
                    a = self_attr(x) if isinstance(x, ast.Attribute) else None
                    if a is None and isinstance(x, ast.Attribute) and isinstance(x.value, ast.Name) and x.value.id in (CLS, "cls"):
                        a = x.attr
                    if a is None or not isinstance(getattr(x, "ctx", None), ast.Store):
                        continue
                    rule.ob()
                    rule.inst(f"{f.qual}:{n.lineno} assigns self.{a}")
                    top = f
                    while top.parent is not None:
                        top = top.parent
                    if top.qual not in init_like:
                        rule.fail(f, n, f"`{norm(n)[:70]}` stores a per-call value in the shared store object: concurrent calls (and later calls) read and "
                                  "overwrite each other's value", A.p.loc(f, n))
        # containers held by the store object: only the claim lists of the lock model may be mutated
        top = f
        while top.parent is not None:
            top = top.parent
        if top.qual in init_like:
            continue
        for n in ast.walk(f.node):
            tgt = None
            how = None
            if isinstance(n, ast.Call) and isinstance(n.func, ast.Attribute) and n.func.attr in (
                    "append", "extend", "insert", "remove", "pop", "clear", "update", "add", "discard", "setdefault", "popitem", "sort", "reverse"):
                tgt, how = n.func.value, f".{n.func.attr}()"
            elif isinstance(n, (ast.Assign, ast.AugAssign, ast.Delete)):
                for t in (n.targets if isinstance(n, (ast.Assign, ast.Delete)) else [n.target]):
                    if isinstance(t, ast.Subscript):
                        tgt, how = t.value, "item assignment / deletion"
            a = self_attr(tgt) if tgt is not None else None
            if a is None:
                continue
            rule.ob()
            if a in A.sync.lists:
                continue   # claim lists: the sanctioned shared state, guarded by their conditions
            rule.inst(f"{f.qual}:{n.lineno} mutates self.{a}")
            rule.fail(f, n, f"`{norm(n)[:70]}` mutates the container self.{a} of the shared store object ({how}) outside construction: results of "
                      "later / concurrent calls then depend on it (a memo or cache that nothing keeps consistent with the files)", A.p.loc(f, n))


def check_C07(A: Analysis, tier):
    rules = []
    ra = Rule("C07", "C07.a", "every create/write/rename/remove of an object, cid list or pid reference holds a "
              "claim keyed by the same identifier, and all sites of one resource class share one lock class", floor=10)
    lockset_rule(A, ra, OBJ_ENTRIES, ("OBJ", "CIDREFS", "PIDREFS"))
    rules.append(ra)

    rb = Rule("C07", "C07.b", "a guarded mutation has at least one of its guards inside the same critical section "
              "of a same-key claim", floor=6)
    stale_check_rule(A, rb, OBJ_ENTRIES, ("OBJ", "CIDREFS", "PIDREFS"), GUARDS_OF)
    rules.append(rb)

    rc = Rule("C07", "C07.c", "the non-blocking try-claim is executed only as part of store_object, on the pid claim list, and "
              "raises the documented in-progress error", floor=2)
    executed = {}
    for it in A.all_api_runs():
        for r in it.lock_events:
            if r["kind"] == "tryclaim":
                executed.setdefault(id(r["op"].node), []).append((it.entry, r["ctx"]))
    for op in A.all_lockops():
        if op.kind == "tryclaim":
            rc.inst(f"{op.func.qual}:{op.node.lineno} try-claim on {op.cls} ({op.mode})")
            rc.ob()
            lab = None
            if op.raise_node is not None and isinstance(op.raise_node.exc, ast.Call):
                lab = ast.unparse(op.raise_node.exc.func)
            # who executes it: every public call that reaches the construct must do so inside store_object
            # (directly or through a helper only store_object uses)
            runs = executed.get(id(op.node), [])
            outside = sorted({e for e, ctx in runs if f"{CLS}.store_object" not in ctx})
            direct = op.func.qual == f"{CLS}.store_object"
            if (not direct and (not runs or outside)) or op.cls != "object_locked_pids" or lab != "StoreObjectForPidAlreadyInProgress":
                rc.fail(op.func, op.node, f"try-claim (immediate rejection) on {op.cls} raising {lab}"
                        + (f", executed by {outside}" if outside else "") + ": the only "
                        "permitted non-blocking claim is store_object's duplicate-pid rejection", A.p.loc(op.func, op.node))
    rules.append(rc)

    rd = Rule("C07", "C07.d", "the advisory flock on a cid list is taken before the first read/write through the "
              "handle", floor=4)
    for m in ("th", "mp"):
        for e in ("tag_object", "delete_object"):
            it = A.api(e, m)
            for ev in it.events:
                if ev.prim.startswith("file.") and ev.kind in ("READ", "WRITE") and (ev.func.name == "_update_refs_file" or f"{CLS}._update_refs_file" in ev.ctx) \
                        and "r" != (ev.extra.get("mode") or "") and any(c_.cls == "CIDREFS" for c_ in primary(ev.classes[0])):
                    rd.ob()
                    rd.inst(f"{ev.func.qual}:{ev.line} {ev.prim}")
                    if ("prim", "FLOCK", 0, "CIDREFS") not in ev.done:
                        rd.fail(ev.func, ev.node, f"{ev.prim} on the cid list is reachable without a preceding fcntl.flock",
                                A.p.loc(ev.func, ev.node))
    rules.append(rd)

    rs = Rule("C07", "C07.g", "no method other than the constructor (and _set_default_algorithms) assigns an attribute of the shared "
              "store object (no per-call state in `self`)", floor=10)
    shared_state_rule(A, rs)
    rules.append(rs)

    from .rules_paths import c05_cached
    c5g = [r for r in rules_of(A, "C05") if r.rid == "C05.g"][0]
    ri7 = Rule("C07", "C07.i", "an existing cid list is updated in place, never replaced by a rename: the advisory flock that serialises "
               "instances of other processes lives on the file's inode, and a waiter that obtains the lock on a replaced (unlinked) inode works on "
               "a stale list (shared with C05.g)", floor=c5g.floor)
    ri7.instances, ri7.nontrivial, ri7.obligations = list(c5g.instances), set(c5g.nontrivial), c5g.obligations
    for f in c5g.findings:
        ri7.fail(f.func, f.construct, f.message, f.loc, f.detail)
    rules.append(ri7)

    _src = [r for r in rules_of(A, "C10") if r.rid == "C10.f"][0]
    _sh = Rule("C07", "C07.j", 'a cid list is never observable empty (or shortened) while it still has members: an in-place rewrite writes first and truncates afterwards (shared with C10.f) - _find_object reads the list without the cid claim and without the flock', floor=_src.floor)
    _sh.instances, _sh.nontrivial, _sh.obligations = list(_src.instances), set(_src.nontrivial), _src.obligations
    for f in _src.findings:
        if True:
            _sh.fail(f.func, f.construct, f.message, f.loc, f.detail)
    rules.append(_sh)
    rk = Rule("C07", "C07.k", "store_object tags inside its own pid claim: every change it makes to a reference file holds the claim(s) it takes itself and "
              "that delete_object holds at its reference changes (store/delete exclusion on the pid covers the object decision *and* the tagging)", floor=4)
    store_tag_claim_rule(A, rk)
    rules.append(rk)
    rh = Rule("C07", "C07.h", "no call removes a directory of the store's permanent trees: a shard directory is shared by every identifier "
              "with the same prefix, and creating it (makedirs) and moving a file into it is atomic with no claim an rmdir could hold", floor=3)
    no_dir_removal_rule(A, rh)
    rules.append(rh)

    _src12 = [r for r in rules_of(A, "C12") if r.rid == "C12.h"][0]
    rl7 = Rule("C07", "C07.l", "every directory creation tolerates a concurrent creator (shared with C12.h): two stores whose identifiers share a shard directory hold "
               "different claims, so a check-then-mkdir makes one of them fail although every sequential order lets both succeed", floor=_src12.floor)
    rl7.instances, rl7.nontrivial, rl7.obligations = list(_src12.instances), set(_src12.nontrivial), _src12.obligations
    for f in _src12.findings:
        rl7.fail(f.func, f.construct, f.message, f.loc, f.detail)
    rules.append(rl7)
    rg = Rule("C07", "C07.f", "a call releases only claims it took itself: no release is reached, on the normal path, on a "
              "rejection path or on an I/O-fault path, without the same claim being held by this call", floor=6)
    release_held_rule(A, rg, OBJ_ENTRIES + ["store_metadata", "delete_metadata"])
    rules.append(rg)

    re_ = Rule("C07", "C07.e", "an identifier claim waits, in a re-checking loop, on the key and list it then appends", floor=6)
    for op in A.all_lockops():
        if op.kind == "acquire" and op.cls != "metadata_locked_docs":
            re_.inst(f"{op.func.qual}:{op.node.lineno} acquire {op.cls} ({op.mode})")
            re_.ob()
            for code, msg, node in op.anomalies:
                if code in ("wait-key-differs", "wait-list-differs", "no-wait", "wait-not-loop"):
                    re_.fail(op.func, op.node.body[0] if op.node.body else op.node,
                             msg + (": a woken waiter claims the identifier without re-checking that it is free (all identifiers of a class share "
                                    "one condition), so two calls hold the same claim" if code == "wait-not-loop" else ""),
                             A.p.loc(op.func, node))
    rules.append(re_)
    return rules


# ---------------------------------------------------------------------------------------
def unbound_reads_rule(A, rule, only_funcs=None):
    """reads of unbound / possibly unbound locals in every public call (both modes) and in the three helpers the interpreter
    summarises instead of inlining (run on their own)"""
    seen8 = set()
    runs = list(A.all_api_runs()) + [A.run(f"{CLS}.{h}", "th") for h in ("_computehash", "_shard", "_cast_to_bytes")]
    for it in runs:
        reads = [(x, "never") for x in it.unbound] + [(x, "some") for x in it.maybe_unbound]
        if it.mode == "th":
            rule.ob()
            rule.inst(f"{it.entry}: {len(reads)} unbound read(s)")
        for (fq, name, line), how in reads:
            if (fq, name, line) in seen8 or (only_funcs is not None and fq not in only_funcs):
                continue
            seen8.add((fq, name, line))
            why = "on which it was never assigned" if how == "never" else "reached by paths of which only some have assigned it (e.g. a loop body that did not run)"
            rule.fail(fq, f"{name} (line {line})", f"`{name}` is read in {fq.split('.')[-1]} on a path of {it.entry.split('.')[-1]} {why}: "
                      "UnboundLocalError instead of the documented outcome; what follows the read (releases, removals) is skipped",
                      f"src/hashstore/filehashstore.py:{line}")


def check_C08(A: Analysis, tier):
    rules = []
    ra = Rule("C08", "C08.a", "what a claim appends is what its release removes (dynamic pairing, see C08.b) and "
              "the condition a release notifies is the condition the acquire waits on", floor=8)
    by = {}
    for op in A.all_lockops():
        if op.kind in ("acquire", "release") and op.cls:
            by.setdefault((op.cls, op.mode), {"wait": set(), "notify": set(), "ops": []})
            d = by[(op.cls, op.mode)]
            d["ops"].append(op)
            if op.kind == "acquire" and op.wait_cond:
                d["wait"].add(op.wait_cond)
            if op.kind == "release" and op.notify_cond:
                d["notify"].add(op.notify_cond)
    for (cls, mode), d in sorted(by.items(), key=lambda x: (x[0][0], x[0][1] or "")):
        ra.inst(f"{cls}_{mode}: waits on {sorted(d['wait'])}, notified through {sorted(d['notify'])}")
        ra.ob()
        if d["wait"] and d["notify"] and d["wait"] != d["notify"]:
            op = [o for o in d["ops"] if o.kind == "release"][0]
            ra.fail(op.func, op.node, f"release of {cls} notifies {sorted(d['notify'])} but waiters wait on "
                    f"{sorted(d['wait'])}: a waiter is never woken", A.p.loc(op.func, op.node))
        for op in d["ops"]:
            for code, msg, node in op.anomalies:
                if code in ("wait-other-cond", "notify-other-cond", "mode-mix", "unknown-list"):
                    ra.fail(op.func, op.node, msg, A.p.loc(op.func, node))
    rules.append(ra)

    rb = Rule("C08", "C08.b", "on every path from a claim to the entry point's normal or exceptional exit the same "
              "(lock class, key) is released: the may-held set is empty at every exit", floor=14)
    for it in A.all_api_runs():
        acq = [r for r in it.lock_events if r["kind"] == "acquire"]
        for r in acq:
            rb.inst(f"{it.entry} [{it.mode}]: claim {r['cls']}({show(r['key'])}) in {r['func'].qual}:{r['op'].node.lineno}",
                    nontrivial=True)
        for kind, label, st, _ in it.exits:
            rb.ob()
            for l in sorted(st.held_may, key=repr):
                # locate the claim
                src = [r for r in acq if (r["cls"], r["key"]) == l]
                fn = src[0]["func"] if src else A.p.func(it.entry)
                node = src[0]["op"].node if src else None
                rb.fail(it.entry, f"{l[0]} claimed in {fn.qual}",
                        f"claim {showlock(l)} can still be held when {it.entry.split('.')[-1]} exits "
                        f"({'normally' if kind == 'return' else 'with ' + str(label)}): the identifier stays locked",
                        A.p.loc(fn, node) if node is not None else "", {"mode": it.mode, "exit": kind, "label": label})
        # a release of something that is not held on some path leaves the may-set alone but
        # shows as a release whose key was never claimed with that key
        for r in it.lock_events:
            if r["kind"] == "release":
                rb.ob()
    rules.append(rb)

    rc = Rule("C08", "C08.c", "the claim-order graph over lock classes is acyclic and no class is claimed while a "
              "claim of the same class is held", floor=3)
    edges = {}
    for it in A.all_api_runs():
        for r in it.lock_events:
            if r["kind"] != "acquire":
                continue
            for h in r["state"].held_may:
                edges.setdefault((h[0], r["cls"]), r)
                rc.ob()
    for (a, b), r in sorted(edges.items(), key=lambda x: x[0]):
        rc.inst(f"{a} -> {b} (e.g. {r['func'].qual}:{r['op'].node.lineno} from {r['entry']})")
        if a == b:
            rc.fail(r["func"], r["op"].node, f"{b} is claimed while another claim of {a} is held (lock-order "
                    "inversion between two identifiers of one class, or self-deadlock on the same one)",
                    A.p.loc(r["func"], r["op"].node))
    # cycle detection
    graph = {}
    for (a, b) in edges:
        if a != b:
            graph.setdefault(a, set()).add(b)

    def reach(x, seen):
        for y in graph.get(x, ()):
            if y not in seen:
                seen.add(y)
                reach(y, seen)
        return seen

    for (a, b), r in sorted(edges.items(), key=lambda x: x[0]):
        if a != b and a in reach(b, set()):
            rc.fail(r["func"], r["op"].node, f"claim order cycle: {a} -> {b} and {b} ->* {a}", A.p.loc(r["func"], r["op"].node))
    rules.append(rc)

    rd = Rule("C08", "C08.d", "only membership tests, append/remove, wait/notify on the same condition, logging and "
              "raise occur while a condition's mutex is held", floor=20)
    re_ = Rule("C08", "C08.e", "every wait() is the body of a `while key in list` loop under its own condition", floor=8)
    rf = Rule("C08", "C08.f", "every release notifies its condition after removing the key", floor=8)
    for op in A.all_lockops():
        rd.inst(f"{op.func.qual}:{op.node.lineno} with self.{op.cond} ({op.kind})")
        rd.ob()
        if op.kind == "acquire":
            re_.inst(f"{op.func.qual}:{op.node.lineno} wait loop on {op.cls}")
            re_.ob()
        if op.kind == "release":
            rf.inst(f"{op.func.qual}:{op.node.lineno} release of {op.cls}")
            rf.ob()
        for code, msg, node in op.anomalies:
            if code in ("foreign", "raw-lock"):
                rd.fail(op.func, node, msg, A.p.loc(op.func, node))
            if code in ("wait-not-loop", "no-wait") and op.cls != "metadata_locked_docs" or code == "wait-not-loop":
                re_.fail(op.func, node, msg, A.p.loc(op.func, node))
            if code in ("no-notify", "notify-before-remove"):
                rf.fail(op.func, node, msg, A.p.loc(op.func, node))
        if op.kind == "unknown" and not op.anomalies:
            rd.fail(op.func, op.node, "block under a condition's mutex matches none of the claim shapes", A.p.loc(op.func, op.node))
    rules += [rd, re_, rf]
    rh8 = Rule("C08", "C08.h", "no call asks for the advisory file lock of a reference file while it is itself still holding one on the same file through "
               "another open handle: flock locks belong to the open file description, so the second request waits for the call's own first handle - forever", floor=2)
    seen_h = set()
    for it in A.all_api_runs():
        for ev in it.events:
            if ev.kind != "FLOCK":
                continue
            rh8.ob()
            k = (ev.func.qual, ev.line)
            if k not in seen_h:
                seen_h.add(k)
                rh8.inst(f"{ev.func.qual}:{ev.line} flock")
            mine = {h for h in ev.paths[0] if tag(h) == "handle"}
            held = [d[1] for d in ev.done if isinstance(d, tuple) and len(d) == 2 and d[0] == "flocked" and d[1] not in mine
                    and any(d[1][1] == h[1] for h in mine)]
            if held and (k, "f") not in seen_h:
                seen_h.add((k, "f"))
                rh8.fail(site_func(ev), site_text(ev), "fcntl.flock is requested on a reference file that this same call has already locked through another handle that "
                         f"is still open (opened {show(held[0])[:60]}): the request can never be granted - the call hangs with every claim it holds",
                         site_loc(A, ev), {"entry": it.entry})
    rules.append(rh8)
    rg8 = Rule("C08", "C08.g", "no path of a public call reads a local variable that nothing on that path has bound, or that only some of the "
               "paths joined before the read have bound (a loop body that may not run, a handler that falls through): the UnboundLocalError "
               "aborts the call in the middle of its clean-up / release sequence", floor=9)
    unbound_reads_rule(A, rg8)
    rules.append(rg8)
    ri8 = Rule("C08", "C08.i", "a path handed in by the caller (data / metadata argument) is opened only after it tested as a regular file: opening a "
               "FIFO or device blocks inside the open for ever, with the identifier's claim held, and everything that then touches the identifier waits", floor=2)
    seen_i = set()
    for e in PUBLIC_API:
        it = A.api(e, "th")
        for ev in it.events:
            if ev.kind not in ("READ", "WRITE", "CREATE") or not ev.prim.endswith("open") or not ev.paths or not ev.paths[0]:
                continue
            if not all(tag(t) == "param" for t in ev.paths[0]):
                continue
            ri8.ob()
            k = (e, ev.func.qual, ev.line)
            if k in seen_i:
                continue
            guarded = any(f_[0] == "probe" and f_[1] in ("isfile", "is_file") and f_[2] == ev.paths[0] and pol is True for f_, pol in ev.facts) \
                or any(F.implied(ev.facts, ("probe", nm_, ev.paths[0], frozenset())) is True for nm_ in ("isfile", "is_file"))
            ri8.inst(f"{e}: {ev.func.qual}:{ev.line} open({showv(ev.paths[0])[:30]}) " + ("after isfile" if guarded else "unguarded"))
            if not guarded:
                seen_i.add(k)
                ri8.fail(site_func(ev), site_text(ev), f"{e} opens the caller's path `{showv(ev.paths[0])[:40]}` on a path that did not establish os.path.isfile() for it: "
                         "a named pipe without a writer (or a device) blocks the open for ever"
                         + (f" while the call holds {sorted(l[0] for l in ev.held_must)}" if ev.held_must else "") + ", so the call never returns",
                         site_loc(A, ev), {"entry": e})
    rules.append(ri8)
    rj8 = Rule("C08", "C08.j", "a call releases only claims it took itself (the rule of C07.f): a release reached on a rejection path takes away the claim of the call "
               "in progress, whose own release then raises in the middle of its release sequence and leaves its other claims held for ever", floor=6)
    release_held_rule(A, rj8, OBJ_ENTRIES + ["store_metadata", "delete_metadata"])
    rules.append(rj8)
    return rules


# ---------------------------------------------------------------------------------------
def check_C12(A: Analysis, tier):
    rules = []
    ra = Rule("C12", "C12.a", "a metadata-document claim waits on the document name it then appends", floor=6)
    for op in A.all_lockops():
        if op.kind == "acquire" and op.cls == "metadata_locked_docs":
            ra.inst(f"{op.func.qual}:{op.node.lineno} acquire metadata_locked_docs ({op.mode})")
            ra.ob()
            for code, msg, node in op.anomalies:
                if code in ("wait-key-differs", "wait-list-differs", "no-wait"):
                    loop = [s for s in op.node.body if isinstance(s, (ast.While, ast.If))]
                    ra.fail(op.func, loop[0].test if loop else op.node,
                            msg + ": a deleter does not wait for a writer (or another deleter) of the same document",
                            A.p.loc(op.func, node), {"mode": op.mode})
    rules.append(ra)

    rb = Rule("C12", "C12.b", "every rename-away/removal of a metadata document that depends on an existence check "
              "has a check inside the claim of that document", floor=2)
    stale_check_rule(A, rb, ["store_metadata", "delete_metadata", "delete_object"], ("META",), {"META": ("META",)})
    rules.append(rb)

    rc = Rule("C12", "C12.c", "every publish-by-rename, rename-away and removal of a metadata document holds the "
              "claim of that document's name", floor=3)
    lockset_rule(A, rc, ["store_metadata", "delete_metadata", "delete_object"], ("META",))
    rules.append(rc)

    rf = Rule("C12", "C12.f", "no call removes a pid's metadata directory: store_metadata creates it and moves the document in under "
              "the document claim only, so a concurrent directory removal has no common claim with it", floor=1)
    for m in ("th", "mp"):
        for e in META_ENTRIES:
            it = A.api(e, m)
            rf.inst(f"{e} [{m}]: {sum(1 for ev in it.events if ev.kind in ('REMOVE', 'RENAME'))} remove/rename event(s)")
            for ev in it.events:
                if ev.kind in ("REMOVE", "RENAME"):
                    rf.ob()
                    for c in primary(ev.classes[0]):
                        if c.cls in ("METADIR", "ENTITYDIR"):
                            rf.fail(site_func(ev), site_text(ev), f"{ev.prim} removes the directory {c!r}: a concurrent store_metadata between its mkdir and its "
                                    "move fails with FileNotFoundError, an error no sequential order produces", site_loc(A, ev))
    rules.append(rf)

    rd = Rule("C12", "C12.e", "metadata-document claims are released on every path (may-held set empty at exits of "
              "store_metadata / delete_metadata / delete_object)", floor=6)
    for m in ("th", "mp"):
        for e in ("store_metadata", "delete_metadata", "delete_object"):
            it = A.api(e, m)
            for kind, label, st, _ in it.exits:
                rd.ob()
                rd.inst(f"{e} [{m}] exit {kind} {label or ''}")
                for l in st.held_may:
                    if l[0] == "metadata_locked_docs":
                        rd.fail(it.entry, "metadata_locked_docs", f"document claim {showlock(l)} may be held at exit ({kind} {label})")
    rules.append(rd)

    rh12 = Rule("C12", "C12.h", "every directory creation tolerates a concurrent creator (exist_ok=True, or inside a try that handles FileExistsError): the "
                "per-document claims of two formats of one pid do not exclude each other around the pid's directory", floor=2)
    from .rules_data import enclosing, in_body
    seen12 = set()
    for e in ("store_metadata", "store_object", "tag_object"):
        it = A.api(e, "th")
        for ev in it.events:
            if ev.kind != "MKDIR" or (ev.func.qual, ev.line) in seen12:
                continue
            seen12.add((ev.func.qual, ev.line))
            rh12.ob()
            rh12.inst(f"{ev.func.qual}:{ev.line} {ev.prim}")
            call = ev.node if isinstance(ev.node, ast.Call) else None
            tolerant = call is not None and any(k.arg == "exist_ok" and isinstance(k.value, ast.Constant) and k.value.value is True for k in call.keywords)
            if ev.prim.endswith("mkdtemp") or ev.prim.endswith("NamedTemporaryFile"):
                tolerant = True
            if not tolerant:
                for (fn_, nd_) in ev.extra.get("callchain", [(ev.func, ev.node)]):
                    for t in enclosing(nd_, ast.Try):
                        if in_body(nd_, t.body) and any((h_.type is None or any(x in ast.unparse(h_.type) for x in ("FileExistsError", "OSError", "Exception")))
                                                        and not any(isinstance(x, ast.Raise) for b_ in h_.body for x in ast.walk(b_))
                                                        for h_ in t.handlers):
                            tolerant = True
            if not tolerant:
                rh12.fail(ev.func, ev.node, f"{ev.prim} fails when the directory already exists, and whether it exists was tested separately (or not at all): two "
                          "concurrent first stores for one pid (different formats / same shard) both see it absent, the loser raises FileExistsError",
                          A.p.loc(ev.func, ev.node))
    rules.append(rh12)

    # a document claim serialises writers of ONE (pid, format) document; the staging file must therefore be nameable by
    # this call only (a NamedTemporaryFile / mkstemp name), or two formats of one pid publish each other's bytes
    from .rules_paths import check_C09
    c9 = [r for r in rules_of(A, "C09") if r.rid == "C09.a"][0]
    rg12 = Rule("C12", "C12.g", "a metadata document is published only from a temp file with a name unique to the call (shared with C09.a): "
                "the per-document claim gives no exclusion over a staging name that another format of the same pid also uses", floor=1)
    meta_inst = [x for x in c9.instances if "META" in x]
    rg12.instances, rg12.nontrivial, rg12.obligations = meta_inst, set(meta_inst), max(len(meta_inst), 1)
    for f in c9.findings:
        if "META" in f.message:
            rg12.fail(f.func, f.construct, f.message, f.loc, f.detail)
    rules.append(rg12)
    rj12 = Rule("C12", "C12.j", "every claim on a metadata document is keyed by the document's NAME as a string - H(pid + format id) where the call "
                "computes it, the listed file name where it enumerates the directory - at every claim site alike: a key of another kind (a path "
                "object, a path with directories, another hash) never equals the keys the other sites use, so the sites do not exclude each other", floor=6)
    seenj = set()
    for e in ("store_metadata", "delete_metadata", "delete_object"):
        for m in ("th", "mp"):
            for r in A.api(e, m).lock_events:
                if r["cls"] != "metadata_locked_docs" or r["kind"] not in ("acquire", "release", "tryclaim"):
                    continue
                k = r["key"]
                rj12.ob()
                sig = (r["func"].qual, r["op"].node.lineno, repr(k))
                if sig in seenj:
                    continue
                seenj.add(sig)
                rj12.inst(f"{e}: {r['kind']} keyed by {show(k)[:60]}")
                alts = k[1] if tag(k) == "alt" else (k,)
                bad = [t for t in alts if not (tag(t) == "H" and t[2] is None and tag(t[1]) == "cat") and tag(t) != "listed"]
                if bad:
                    rj12.fail(r["func"], r["op"].node, f"the metadata-document claim is keyed by {show(bad[0])[:80]}, not by the document name (a string): "
                              "store_metadata / delete_metadata(pid, format) key their claims by H(pid + format id), so this site and theirs never wait "
                              "for each other on the same document", A.p.loc(r["func"], r["op"].node), {"entry": e, "kind": r["kind"]})
    rules.append(rj12)
    ri12 = Rule("C12", "C12.i", "the delete-all forms work through the whole directory listing: the loop over the listed documents has no `break` and "
                "no `return` (a document that vanished since the listing - another call removed it - is skipped, the others are still removed)", floor=1)
    listing_loop_rule(A, ri12)
    rules.append(ri12)
    rk12 = Rule("C12", "C12.k", "a `_delete` marker belongs to no call in particular (its name is the document's or reference's, not the caller's) and the "
                "sweep that removes markers runs after every claim was released: each removal of a marker path therefore tolerates the marker's absence "
                "(it sits in a try whose handler for OSError or broader does not re-raise)", floor=1)
    marker_remove_rule(A, rk12, ("delete_metadata", "delete_object", "store_object", "tag_object"))
    rules.append(rk12)
    return rules


_BROAD = {"Exception", "BaseException", "OSError", "IOError", "EnvironmentError", "FileNotFoundError"}


def _tolerant_try(node):
    """is `node` inside the body of a try whose handler for OSError-or-broader completes without re-raising?"""
    cur, child = getattr(node, "_parent", None), node
    while cur is not None and not isinstance(cur, (ast.FunctionDef, ast.AsyncFunctionDef, ast.Lambda)):
        if isinstance(cur, ast.Try) and any(child is b for b in cur.body):
            for h in cur.handlers:
                names = set()
                if h.type is None:
                    names = {"BaseException"}
                else:
                    for t_ in (h.type.elts if isinstance(h.type, ast.Tuple) else [h.type]):
                        names.add(norm(t_).split(".")[-1])
                if names & _BROAD and not any(isinstance(x, ast.Raise) for b in h.body for x in ast.walk(b)):
                    return True
                if names & _BROAD:
                    break       # the first matching handler re-raises
        if isinstance(cur, ast.With) and any(child is b for b in cur.body):
            # `with contextlib.suppress(OSError):` absorbs the same errors as such a handler
            for it_ in cur.items:
                ce = it_.context_expr
                if isinstance(ce, ast.Call) and norm(ce.func).split(".")[-1] == "suppress" \
                        and {norm(a_).split(".")[-1] for a_ in ce.args} & _BROAD:
                    return True
        cur, child = getattr(cur, "_parent", None), cur
    return False


def marker_remove_rule(A, rule, entries):
    seen = set()
    for e in entries:
        it = A.api(e, "th")
        for ev in it.events:
            if ev.kind != "REMOVE" or not ev.paths or not any(c.cls == "MARKER" for c in ev.classes[0]):
                continue
            k = (ev.func.qual, ev.line)
            rule.ob()
            if k in seen:
                continue
            seen.add(k)
            mo = ev.extra.get("missing_ok")
            tolerant = any(_tolerant_try(n_) for _f, n_ in ev.extra.get("callchain", [(ev.func, ev.node)]) if n_ is not None) or mo is True
            rule.inst(f"{e}: {ev.func.qual}:{ev.line} {ev.prim} of a marker " + ("(absence tolerated)" if tolerant else "(absence raises)"))
            if not tolerant:
                rule.fail(site_func(ev), site_text(ev), f"{ev.prim} of a `_delete` marker outside any handler that absorbs its absence: another call's sweep (which runs "
                          "after that call released its claims) can remove the same marker between any check and this removal, and this call then fails with "
                          "FileNotFoundError - an outcome no sequential order of the calls produces", site_loc(A, ev), {"entry": e})


def listing_loop_rule(A, rule):
    seen = set()
    for e in ("delete_metadata", "delete_object"):
        for m in ("th", "mp"):
            it = A.api(e, m)
            loops = {(ev.func.qual) for ev in it.events if ev.prim in ("os.listdir", "os.scandir") or ev.kind == "LISTDIR"}
            rule.ob()
            for (fn, node, kind, ctx) in it.listing_loop_exits:
                if (fn.qual, node.lineno, kind) in seen:
                    continue
                seen.add((fn.qual, node.lineno, kind))
                stmt = next((x for b_ in node.body for x in ast.walk(b_) if isinstance(x, ast.Break if kind == "break" else ast.Return)), node)
                rule.fail(fn, stmt, f"the loop over the pid's listed metadata documents can end early with `{kind}`: documents listed after the current one are "
                          f"left in place although {e}(pid) reports success (no sequential order of the concurrent calls leaves them)", A.p.loc(fn, stmt),
                          {"entry": e})
    # the loops themselves (anchor): for statements whose iterable is a directory listing
    n = 0
    for e in ("delete_metadata",):
        it = A.api(e, "th")
        n += len(getattr(it, "listing_loops", ()))
    for k in range(n):
        rule.inst(f"listing loop #{k + 1}")


# ---------------------------------------------------------------------------------------
def _mode_ifs(A):
    """(function, If / IfExp) pairs whose test reads self.use_multiprocessing"""
    out = []
    for f in A.p.funcs.values():
        if f.cls != CLS:
            continue
        for n in func_nodes(f, (ast.If, ast.IfExp)):
            if any(self_attr(x) == "use_multiprocessing" for x in ast.walk(n.test)):
                out.append((f, n))
    return out


def _attrs(nodes, sfx, ctx=None):
    out = {}
    for st in nodes:
        for n in ast.walk(st):
            a = self_attr(n)
            if a and a.endswith(sfx) and (ctx is None or isinstance(n.ctx, ctx)):
                out.setdefault(a, n)
    return out


def _eval_guard(test, value):
    """evaluate a guard over self.use_multiprocessing for a concrete attribute value"""
    if self_attr(test) == "use_multiprocessing":
        return bool(value)
    if isinstance(test, ast.UnaryOp) and isinstance(test.op, ast.Not):
        return not _eval_guard(test.operand, value)
    if isinstance(test, ast.Compare) and len(test.ops) == 1 and isinstance(test.left, ast.Constant) \
            and self_attr(test.comparators[0]) == "use_multiprocessing" and isinstance(test.ops[0], (ast.Eq, ast.NotEq, ast.Is, ast.IsNot)):
        test = ast.Compare(left=test.comparators[0], ops=test.ops, comparators=[test.left])
    if isinstance(test, ast.Compare) and len(test.ops) == 1 and self_attr(test.left) == "use_multiprocessing" \
            and isinstance(test.comparators[0], ast.Constant):
        c = test.comparators[0].value
        op = test.ops[0]
        if isinstance(op, ast.Eq):
            return value == c
        if isinstance(op, ast.NotEq):
            return value != c
        if isinstance(op, ast.Is):
            return value is c
        if isinstance(op, ast.IsNot):
            return value is not c
    if isinstance(test, ast.BoolOp):
        vals = [_eval_guard(v, value) for v in test.values]
        return all(vals) if isinstance(test.op, ast.And) else any(vals)
    raise AnalysisError(f"mode guard `{ast.unparse(test)}` is not in a form the guard evaluator reads")


def _eval_flag(expr, envval):
    """value of the expression assigned to self.use_multiprocessing for a given environment
    value (None = unset)"""
    if isinstance(expr, ast.Compare) and len(expr.ops) == 1 and isinstance(expr.left, ast.Constant) \
            and not isinstance(expr.comparators[0], ast.Constant) and isinstance(expr.ops[0], (ast.Eq, ast.NotEq)):
        expr = ast.Compare(left=expr.comparators[0], ops=expr.ops, comparators=[expr.left])
    if isinstance(expr, ast.Compare) and len(expr.ops) == 1 and isinstance(expr.comparators[0], ast.Constant):
        l = _eval_flag(expr.left, envval)
        c = expr.comparators[0].value
        if isinstance(expr.ops[0], ast.Eq):
            return l == c
        if isinstance(expr.ops[0], ast.NotEq):
            return l != c
    if isinstance(expr, ast.Call) and ast.unparse(expr.func) in ("os.getenv", "os.environ.get"):
        name = expr.args[0].value if expr.args and isinstance(expr.args[0], ast.Constant) else None
        dflt = expr.args[1].value if len(expr.args) > 1 and isinstance(expr.args[1], ast.Constant) else None
        return ("env", name, envval if envval is not None else dflt)[2] if True else None
    if isinstance(expr, ast.Call) and isinstance(expr.func, ast.Name) and expr.func.id == "bool" and expr.args:
        return bool(_eval_flag(expr.args[0], envval))
    if isinstance(expr, ast.Call) and isinstance(expr.func, ast.Attribute) and not expr.args and not expr.keywords \
            and expr.func.attr in ("lower", "upper", "strip", "title", "capitalize", "casefold", "lstrip", "rstrip"):
        # a string method on the environment value, computed on the concrete value (`.lower() == "True"` is never true)
        v = _eval_flag(expr.func.value, envval)
        if isinstance(v, str):
            return getattr(v, expr.func.attr)()
        raise AnalysisError(f"mode flag expression `{ast.unparse(expr)}`: .{expr.func.attr}() of a value that may be None (unset variable without default)")
    if isinstance(expr, ast.Compare) and len(expr.ops) == 1 and isinstance(expr.ops[0], (ast.In, ast.NotIn)) \
            and isinstance(expr.comparators[0], (ast.Tuple, ast.List, ast.Set)) and all(isinstance(e, ast.Constant) for e in expr.comparators[0].elts):
        l = _eval_flag(expr.left, envval)
        r = l in [e.value for e in expr.comparators[0].elts]
        return r if isinstance(expr.ops[0], ast.In) else not r
    if isinstance(expr, ast.Constant):
        return expr.value
    raise AnalysisError(f"mode flag expression `{ast.unparse(expr)}` is not in a form the evaluator reads")


def _strip_logging(stmts, fresh=False, loggers=frozenset()):
    if not fresh:
        # re-parse: the analysed tree carries parent links, copying it would copy the module
        loggers = logger_names_in(stmts)
        stmts = ast.parse("\n".join(ast.unparse(s) for s in stmts)).body if stmts else []
    out = []
    for s in stmts:
        if is_logging_stmt(s, loggers):
            continue
        for fld in ("body", "orelse", "finalbody"):
            if hasattr(s, fld) and isinstance(getattr(s, fld), list):
                setattr(s, fld, _strip_logging(getattr(s, fld), True, loggers) or ([ast.Pass()] if fld == "body" else []))
        for h in getattr(s, "handlers", []) or []:
            h.body = _strip_logging(h.body, True, loggers) or [ast.Pass()]
        out.append(s)
    return out


def check_C16(A: Analysis, tier):
    rules = []
    init = A.p.func(f"{CLS}.__init__")
    ifs = _mode_ifs(A)
    ctor_q = {f_.qual for f_ in A.p.ctor_funcs(CLS)}
    ctor = [(f, n) for f, n in ifs if f.qual in ctor_q and isinstance(n, ast.If) and _attrs(n.body, "_mp", ast.Store) and _attrs(n.orelse, "_th", ast.Store)]
    if len(ctor) != 1:
        raise AnalysisError("constructor mode guard (an `if` on self.use_multiprocessing defining the *_mp / *_th "
                            f"primitives) not found exactly once in {CLS}.__init__ (found {len(ctor)})")
    cf, cif = ctor[0]
    from .locks import is_logger_assign
    # (a mode test that only picks a logger / logs is no selection of primitives)
    uses = [(f, n) for f, n in ifs if n is not cif and not (isinstance(n, ast.If) and all(
        is_logging_stmt(s_) or is_logger_assign(s_) for s_ in list(n.body) + list(n.orelse)) and not _attrs(list(n.body) + list(n.orelse), "_mp")
        and not _attrs(list(n.body) + list(n.orelse), "_th") and any(not is_logging_stmt(s_) for s_ in list(n.body) + list(n.orelse)))]
    flag_assign = None
    for f_ in A.p.ctor_funcs(CLS):
        for n in func_nodes(f_, ast.Assign):
            if len(n.targets) == 1 and self_attr(n.targets[0]) == "use_multiprocessing":
                flag_assign = n
    if flag_assign is None:
        raise AnalysisError("self.use_multiprocessing is not assigned in the constructor")

    ra = Rule("C16", "C16.a", "the mode guard that creates the *_mp / *_th primitives is, for every value the flag "
              "can take, the same predicate as the guard at each use site", floor=15)
    envs = {"True": "True", "False": "False", "unset": None, "other": "1"}
    flagvals = {k: _eval_flag(flag_assign.value, v) for k, v in envs.items()}
    cvals = {k: _eval_guard(cif.test, v) for k, v in flagvals.items()}
    for f, n in uses:
        ra.inst(f"{f.qual}:{n.lineno} `if {norm(n.test)}`")
    for f, n in uses:
        ra.ob()
        uvals = {k: _eval_guard(n.test, v) for k, v in flagvals.items()}
        bad = [k for k in envs if uvals[k] != cvals[k]]
        if bad:
            ra.fail(init, cif.test,
                    f"constructor selects the multiprocessing primitives by `{norm(cif.test)}` but "
                    f"{f.qual} selects them by `{norm(n.test)}`; with USE_MULTIPROCESSING={bad[0]} the flag is "
                    f"{flagvals[bad[0]]!r}: constructor takes the {'mp' if cvals[bad[0]] else 'th'} side, the use site "
                    f"the {'mp' if uvals[bad[0]] else 'th'} side — the primitives used were never created",
                    A.p.loc(init, cif), {"flag_values": {k: repr(v) for k, v in flagvals.items()}})
            break
    rules.append(ra)

    rb = Rule("C16", "C16.b", "every *_mp (resp. *_th) attribute read anywhere in the class is assigned on the "
              "corresponding side of the constructor's guard", floor=16)
    for sfx, side in (("_mp", cif.body), ("_th", cif.orelse)):
        defined = set(_attrs(side, sfx, ast.Store))
        used = {}
        for f in A.p.funcs.values():
            if f.cls == CLS and f is not init:
                for a, n in _attrs([f.node], sfx, ast.Load).items():
                    used.setdefault(a, (f, n))
        for a, (f, n) in sorted(used.items()):
            rb.inst(f"self.{a} read in {f.qual}")
            rb.ob()
            if a not in defined:
                rb.fail(f, f"self.{a}", f"self.{a} is read but never created on the {sfx[1:]} side of the constructor",
                        A.p.loc(f, n))
    rules.append(rb)

    rc = Rule("C16", "C16.c", "the two branches of every mode split are equal after renaming _mp to _th and "
              "dropping logging", floor=15)
    for f, n in uses:
        rc.inst(f"{f.qual}:{n.lineno} twin")
        rc.ob()
        pol_mp_first = _eval_guard(n.test, True)
        if isinstance(n, ast.IfExp):
            mp_e, th_e = (n.body, n.orelse) if pol_mp_first else (n.orelse, n.body)
            a2 = re.sub(r"_mp\b", "_th", ast.unparse(mp_e))
            a2 = re.sub(r"(['\"])mp\1", r"\1th\1", a2)
            if a2 != ast.unparse(th_e):
                rc.fail(f, n, f"the two arms of the mode selection differ beyond the suffix: `{ast.unparse(mp_e)}` vs `{ast.unparse(th_e)}`: "
                        "one mode consults another claim list / condition than the other", A.p.loc(f, n))
            continue
        orelse = n.orelse
        if not orelse and n.body and isinstance(n.body[-1], (ast.Return, ast.Raise)):
            # `if mode: return X_mp` followed by `return X_th`: the rest of the block is the else side
            blk = getattr(n, "_parent", None)
            for fld in ("body", "orelse", "finalbody"):
                lst = getattr(blk, fld, None)
                if isinstance(lst, list) and any(n is x for x in lst):
                    orelse = lst[[i for i, x in enumerate(lst) if x is n][0] + 1:]
        mp, th = (n.body, orelse) if pol_mp_first else (orelse, n.body)
        a = "\n".join(ast.unparse(s) for s in _strip_logging(mp))
        b = "\n".join(ast.unparse(s) for s in _strip_logging(th))
        a2 = re.sub(r"_mp\b", "_th", a)
        a2 = re.sub(r"(['\"])mp\1", r"\1th\1", a2)
        if a2 != b:
            la, lb = a2.splitlines(), b.splitlines()
            diff = next(((x, y) for x, y in zip(la, lb) if x != y), (la[len(lb):][:1] or [""], lb[len(la):][:1] or [""]))
            rc.fail(f, f"mode twin at `{norm(n.body[0])[:60]}`",
                    f"multiprocessing and threading branches differ: `{str(diff[0])[:80]}` vs `{str(diff[1])[:80]}`",
                    A.p.loc(f, n))
        if _attrs(mp, "_th") or _attrs(th, "_mp"):
            rc.fail(f, f"mode twin at `{norm(n.body[0])[:60]}`", "a branch uses the other mode's primitives", A.p.loc(f, n))
    rules.append(rc)

    rd = Rule("C16", "C16.d", "on the mp side every lock/condition/claim list is a multiprocessing primitive "
              "(Manager().list() for lists), on the th side the threading equivalents", floor=24)
    for sfx, side, mod in (("_mp", cif.body, "multiprocessing"), ("_th", cif.orelse, "threading")):
        for st in side:
            if not (isinstance(st, ast.Assign) and len(st.targets) == 1 and self_attr(st.targets[0])):
                continue
            a = self_attr(st.targets[0])
            v = st.value
            rd.inst(f"self.{a} = {norm(v)[:50]}")
            rd.ob()
            txt = norm(v)
            if "lock" in a and "locked" not in a:
                ok = txt == f"{mod}.Lock()"
            elif "condition" in a:
                ok = isinstance(v, ast.Call) and norm(v.func) == f"{mod}.Condition" and len(v.args) == 1 and \
                    (self_attr(v.args[0]) or "").endswith(sfx) and (self_attr(v.args[0]) or "") in A.sync.locks
            elif "locked" in a:
                ok = txt == ("multiprocessing.Manager().list()" if mod == "multiprocessing" else "[]")
            else:
                continue
            if not ok:
                rd.fail(init, st, f"self.{a} is not a {mod} primitive of the expected kind: cross-process exclusion "
                        f"would silently not hold" if mod == "multiprocessing" else f"self.{a} is not the expected {mod} primitive",
                        A.p.loc(init, st))
    rules.append(rd)

    rg16 = Rule("C16", "C16.g", "no code registered to run around fork() / at exit touches the claim state: in multiprocessing mode the claim lists are "
                "manager proxies shared by every process, so a hook that clears or rebuilds them in a freshly forked child clears every other "
                "worker's claims (exclusion across processes is lost); in threading mode they are plain per-process lists", floor=0)
    sync_attrs = set(A.sync.lists) | set(A.sync.conditions) | set(A.sync.locks)
    for f in A.p.funcs.values():
        if f.inherited or f.module.name in ("hashstoreclient", "__init__", "filehashstore_exceptions"):
            continue
        for c in func_nodes(f, ast.Call):
            if norm(c.func) not in ("os.register_at_fork", "atexit.register", "multiprocessing.util.register_after_fork"):
                continue
            rg16.ob()
            rg16.inst(f"{f.qual}:{c.lineno} {norm(c.func)}")
            cbs = [k.value for k in c.keywords] + list(c.args)
            seen_f, todo, touched = set(), [], []
            # functools.partial(f, ...) runs f
            cbs = [(cb.args[0] if isinstance(cb, ast.Call) and norm(cb.func).split(".")[-1] == "partial" and cb.args else cb) for cb in cbs]
            for cb in cbs:
                if isinstance(cb, ast.Attribute) and isinstance(cb.value, ast.Name) and cb.value.id in ("self", "cls", f.cls or "") and A.p.method(f.cls, cb.attr):
                    todo.append(A.p.method(f.cls, cb.attr))
                elif isinstance(cb, ast.Name) and (cb.id in A.p.funcs or f"{f.qual}.<locals>.{cb.id}" in A.p.funcs):
                    todo.append(A.p.funcs.get(f"{f.qual}.<locals>.{cb.id}") or A.p.funcs[cb.id])
                elif isinstance(cb, ast.Lambda):
                    touched += [norm(x) for x in ast.walk(cb.body) if self_attr(x) in sync_attrs or (isinstance(x, ast.Call) and norm(x.func) in ("getattr", "setattr", "vars"))]
                    todo += [A.p.method(f.cls, x.func.attr) for x in ast.walk(cb.body) if isinstance(x, ast.Call) and isinstance(x.func, ast.Attribute)
                             and isinstance(x.func.value, ast.Name) and x.func.value.id == "self" and A.p.method(f.cls, x.func.attr)]
                elif not isinstance(cb, ast.Constant):
                    rg16.inst(f"{f.qual}:{c.lineno} callback {norm(cb)[:40]} not resolved (not judged)")
            while todo:
                g = todo.pop()
                if g is None or g.qual in seen_f or len(seen_f) > 40:
                    continue
                seen_f.add(g.qual)
                for x in ast.walk(g.node):
                    if self_attr(x) in sync_attrs:
                        touched.append(f"self.{self_attr(x)} in {g.qual}")
                    if isinstance(x, ast.Call) and norm(x.func) in ("getattr", "setattr", "vars", "delattr") and x.args and norm(x.args[0]) == "self" \
                            and not (len(x.args) > 1 and isinstance(x.args[1], ast.Constant) and x.args[1].value not in sync_attrs):
                        touched.append(f"{norm(x)[:50]} in {g.qual}")
                    if isinstance(x, ast.Call) and isinstance(x.func, ast.Attribute) and isinstance(x.func.value, ast.Name) and x.func.value.id == "self":
                        todo.append(A.p.method(g.cls, x.func.attr))
            if touched:
                rg16.fail(f, c, f"`{norm(c)[:80]}` registers code that touches the claim state ({'; '.join(sorted(set(touched))[:3])}): run in a forked child (or at "
                          "exit) it changes the lists that - in multiprocessing mode - all processes share, so identifiers claimed by other workers become free "
                          "while those workers are still inside their calls", A.p.loc(f, c))
    rules.append(rg16)

    re_ = Rule("C16", "C16.e", "the mode is selected by the documented variable USE_MULTIPROCESSING compared with "
               "'True' (library and client), and selects mp exactly for that value", floor=2)
    re_.inst(f"{CLS}.__init__: {norm(flag_assign)}")
    re_.ob()
    getenvs = [c for c in ast.walk(flag_assign.value) if isinstance(c, ast.Call) and norm(c.func) in ("os.getenv", "os.environ.get")]
    if not getenvs or not getenvs[0].args or getattr(getenvs[0].args[0], "value", None) != "USE_MULTIPROCESSING":
        re_.fail(init, flag_assign, "mode flag is not read from USE_MULTIPROCESSING", A.p.loc(init, flag_assign))
    want = {"True": True, "False": False, "unset": False, "other": False}
    for k in envs:
        if bool(cvals[k]) != want[k]:
            re_.fail(init, cif.test, f"with USE_MULTIPROCESSING={k} the constructor takes the "
                     f"{'mp' if cvals[k] else 'th'} side (documented: mp exactly for 'True')", A.p.loc(init, cif))
            break
    cl = A.p.funcs.get("HashStoreClient.__init__")
    if cl is not None:
        for n in func_nodes(cl, ast.Assign):
            if isinstance(n.targets[0], ast.Subscript) and "os.environ" in norm(n.targets[0]):
                re_.inst(f"HashStoreClient.__init__: {norm(n)}")
                re_.ob()
                key = n.targets[0].slice
                if getattr(key, "value", None) != "USE_MULTIPROCESSING" or getattr(n.value, "value", None) != "True":
                    re_.fail(cl, n, "client enables multiprocessing through a different variable/value than the library reads",
                             A.p.loc(cl, n))
    rules.append(re_)
    rf16 = Rule("C16", "C16.f", "all coordination state lives in the constructor's Manager lists / Conditions: no method keeps counters or flags in a plain "
                "attribute of the store object (shared with C07.g) - such state is per process, invisible to the other workers", floor=10)
    shared_state_rule(A, rf16)
    rules.append(rf16)
    return rules
