"""Analysis context shared by all rules: the parsed program, the lock table, the path
attributes derived from the constructor, and cached interpreter runs per (entry, mode)."""

from __future__ import annotations

import ast

import time

from .interp import Interp
from .loader import Program, load, read_sources
from .locks import SyncTable, all_lockops
from .terms import AnalysisError, ROOT, V, J, C, tag, substitute, EMPTY

PUBLIC_API = [
    "store_object", "tag_object", "delete_if_invalid_object", "store_metadata",
    "retrieve_object", "retrieve_metadata", "delete_object", "delete_metadata", "get_hex_digest",
]
CLS = "FileHashStore"
PATH_ATTRS = ("root", "objects", "metadata", "refs", "cids", "pids", "hashstore_configuration_yaml")


class Analysis:
    def __init__(self, program: Program | None = None, root="/repo/src/hashstore"):
        t0 = time.time()
        self.p = program if program is not None else load(root)
        self.sync = SyncTable(self.p, CLS)
        self.lockops = all_lockops(self.p, self.sync, CLS)
        self._runs = {}
        self.alias = {}
        self.path_attrs = self._derive_path_attrs()
        self.load_s = time.time() - t0
        for a in PUBLIC_API:
            self.p.func(f"{CLS}.{a}")

    # ------------------------------------------------------------------
    def _derive_path_attrs(self):
        it = Interp(self.p, f"{CLS}.__init__", "th", path_attrs={}, sync=self.sync)
        it.run()
        rootv = it.attr_assigns.get("root")
        if not rootv:
            raise AnalysisError(f"cannot determine the store root: self.root is never assigned in {CLS}.__init__")
        # ROOT is, by definition, whatever self.root may hold (the constructor takes it from
        # the validated properties; the comprehension makes the value set imprecise)
        self.alias = {rt: ROOT for rt in rootv}
        out = {}
        for a in PATH_ATTRS:
            v = it.attr_assigns.get(a)
            if v is None:
                raise AnalysisError(f"{CLS}.__init__ no longer assigns self.{a} (anchor attribute)")
            out[a] = frozenset(substitute(t, self.alias) for t in v)
        out["root"] = V(ROOT)
        self.init_probe = it
        out.update(self._init_tables())
        return out

    def _init_tables(self):
        """instance attributes the constructor binds to a literal table whose entries are constants or other attributes of
        self (`self._claims_th = {"object_pid": (self.object_pid_condition_th, self.object_locked_pids_th), ...}`): known
        by structure, the entries standing for the attributes they name"""
        def entry(e):
            if isinstance(e, ast.Attribute) and isinstance(e.value, ast.Name) and e.value.id == "self":
                return V(("selfattr", e.attr))
            if isinstance(e, ast.Constant):
                return V(C(e.value))
            if isinstance(e, (ast.Tuple, ast.List)):
                parts = [entry(x) for x in e.elts]
                if all(p_ is not None for p_ in parts):
                    return V(("tuple", tuple(parts)))
            return None

        out = {}
        for n in [x for f_ in self.p.ctor_funcs(CLS) for x in ast.walk(f_.node)]:
            if isinstance(n, ast.Assign) and len(n.targets) == 1 and isinstance(n.targets[0], ast.Attribute) and isinstance(n.targets[0].value, ast.Name) \
                    and n.targets[0].value.id == "self" and isinstance(n.value, ast.Dict) and n.value.keys \
                    and all(isinstance(k, ast.Constant) for k in n.value.keys):
                vals = [entry(v) for v in n.value.values]
                name = n.targets[0].attr
                if all(v is not None for v in vals) and name not in PATH_ATTRS and name not in out:
                    if any(any(tag(t) in ("selfattr", "tuple") for t in v) for v in vals):
                        out[name] = V(("dictlit", tuple((C(k.value), v) for k, v in zip(n.value.keys, vals))))
        return out

    def run(self, entry, mode="th", inline_api=True, overrides=None, tagk=None, assume=None, relative_root=False) -> Interp:
        key = (entry, mode, inline_api, tagk)
        if key not in self._runs:
            from . import terms as _t
            _t.RELATIVE_ROOT[0] = bool(relative_root)
            try:
                return self._run(key, entry, mode, inline_api, overrides, assume)
            finally:
                _t.RELATIVE_ROOT[0] = False
        return self._runs[key]

    def _run(self, key, entry, mode, inline_api, overrides, assume):
        if key not in self._runs:
            it = Interp(self.p, entry, mode, inline_api=inline_api, path_attrs=self.path_attrs, sync=self.sync)
            it.alias = dict(self.alias)
            it.assume = assume
            ov = dict(overrides or {})
            it.run(ov)
            self._runs[key] = it
        return self._runs[key]

    def api(self, name, mode="th"):
        return self.run(f"{CLS}.{name}", mode)

    def impl(self, name, cls=CLS):
        """the function that holds the logic of a method: the method itself, or - when its whole body is
        `return self._x(<its own parameters>)` / `return module_function(<its own parameters>, <constants>)` - that
        function (followed transitively)"""
        f = self.p.func(f"{cls}.{name}")
        seen = set()
        while f.qual not in seen:
            seen.add(f.qual)
            body = [s for s in f.node.body if not (isinstance(s, ast.Expr) and isinstance(s.value, ast.Constant))]
            if len(body) != 1 or not isinstance(body[0], (ast.Return, ast.Expr)) or not isinstance(body[0].value, ast.Call):
                break
            c = body[0].value
            g = None
            if isinstance(c.func, ast.Attribute) and isinstance(c.func.value, ast.Name) and c.func.value.id in ("self", "cls", f.cls or ""):
                g = self.p.method(f.cls, c.func.attr)
            elif isinstance(c.func, ast.Name) and c.func.id in self.p.funcs and "." not in c.func.id:
                g = self.p.funcs[c.func.id]
            params = [a.arg for a in f.node.args.args if a.arg not in ("self", "cls")]
            passed = [a.id for a in c.args if isinstance(a, ast.Name)] + [k.value.id for k in c.keywords if isinstance(k.value, ast.Name)]
            others = [a for a in c.args if not isinstance(a, ast.Name)] + [k.value for k in c.keywords if not isinstance(k.value, ast.Name)]
            if g is None or sorted(passed) != sorted(params) or not all(isinstance(o, ast.Constant) for o in others):
                break
            f = g
        return f

    def impl_q(self, name, cls=CLS):
        return self.impl(name, cls).qual

    def all_api_runs(self, modes=("th", "mp")):
        for m in modes:
            for a in PUBLIC_API:
                yield self.api(a, m)

    def all_lockops(self):
        """lock operations written as `with self.<cond>` plus those on locals that can only
        hold condition attributes (discovered while interpreting the public entry points)"""
        ops = {(o.func.qual, o.node.lineno): o for o in self.lockops}
        for it in self.all_api_runs():
            for k, o in it.dynamic_ops.items():
                ops.setdefault(k, o)
        return [ops[k] for k in sorted(ops, key=repr)]

    def problems(self):
        out = []
        for it in self._runs.values():
            for pr in it.problems:
                if pr not in out:
                    out.append(pr)
        return out
