"""Structured abstract interpreter with full inlining (analyses A1, A2, A4, A5, A6).

`Interp(program, entry, mode)` executes one public entry point abstractly: every statement
kind has an outcome (normal / return / raise-by-label / break / continue) that carries an
abstract `State`; repository functions are inlined at their call sites (call strings, depth
bound 8), so every fact recorded is per calling context.  The statement-outcome semantics
*is* the control-flow graph with exceptional edges of DESIGN §2.1; must-sets replace
dominance queries and may-sets replace "exists a path" queries.

Nothing of the analysed package is imported or run."""

from __future__ import annotations

import ast
import builtins

from . import facts as F
from .locks import SyncTable, match_with, is_logging_stmt, stem
from .state import State, Out, Event, join, Abort as _Abort
from .terms import (AnalysisError, C, P, V, J, ROOT, NONE, TRUE, FALSE, EMPTY, tag, cat,
                    is_const, classify, is_summary, MAXSET, substitute, contains)
from .exprs import ExprMixin

DEPTH_BOUND = 10
LOOP_BOUND = 8



# helpers that take an identifier / relative name and form the path themselves: the
# meaningful site of what they do is their caller (one line of reason each)
ID_HELPERS = {
    "FileHashStore._delete": "file given as id or path; path formed by the look-up helpers",
    "FileHashStore._open": "same",
    "FileHashStore._exists": "same",
    "FileHashStore._get_hashstore_data_object_path": "look-up helper",
    "FileHashStore._get_hashstore_metadata_path": "look-up helper",
    "FileHashStore._build_hashstore_data_object_path": "look-up helper",
}


class Frame:
    __slots__ = ("func", "ctx", "selfterm", "localfuncs", "depth", "parent", "callnode", "argterms", "on_yield")

    def __init__(self, func, ctx, selfterm, depth, parent=None, callnode=None, argterms=frozenset()):
        self.func = func
        self.ctx = ctx
        self.selfterm = selfterm
        self.localfuncs = {}
        self.depth = depth
        self.parent = parent
        self.callnode = callnode
        self.argterms = argterms
        self.on_yield = None

    def site_for(self, node, terms):
        """the frame / node where the path of a primitive was decided: walk up while the
        path was handed in as an argument (or the function is an id-taking helper)"""
        fr, nd = self, node
        while fr.parent is not None and (
            fr.func.qual in ID_HELPERS or (terms and all(t in fr.argterms for t in terms))
        ):
            fr, nd = fr.parent, fr.callnode
        return fr.func, nd


class Interp(ExprMixin):
    # repository functions that are *summarised* rather than inlined, with the reason
    INTRINSICS = {
        "FileHashStore._computehash": "digest function; result is the opaque term H(x;alg)",
        "FileHashStore._shard": "splits a digest; verified structurally by rule C15.b",
        "FileHashStore._cast_to_bytes": "identity on the abstract value",
        "HashStoreFactory.get_hashstore": "returns the one implementation (assumption 1)",
    }

    def __init__(self, program, entry, mode="th", inline_api=True, path_attrs=None, sync=None):
        self.p = program
        self.entry = entry
        self.mode = mode
        self.inline_api = inline_api
        self.sync = sync or SyncTable(program)
        self.events = []
        self.lock_events = []   # (kind, cls, key, lockop, state, ctx, func)
        self.raise_sites = []   # (func, ast.Raise, state, ctx)
        self.return_sites = []  # (func, ast.Return, state, value, ctx)
        self.unbound = []       # (function, name, line): a local read on a path on which nothing has bound it
        self.lambdas = {}             # lambda term -> (node, defining frame, locals at creation)
        self.closure_env = {}         # nested function qual -> locals of the enclosing frame when it was taken as a value
        self.listing_loops = []       # (function, For node): loops over the entries of a directory listing
        self.listing_loop_exits = []  # (function, For node, "break"/"return", ctx): early normal exits from loops over a directory listing
        self.maybe_unbound = []  # (function, name, line): a local read where only some of the joined paths have bound it
        self.calls = []         # (callee qual, call node, ctx, func, state, argmap)
        self.exits = []         # (kind, label, state)
        self.problems = []      # analysis errors (strings)
        self.unresolved = {}    # text -> count
        self.attr_assigns = {}  # self.<attr> -> valset (flow-insensitive, this run)
        self.path_attrs = path_attrs if path_attrs is not None else {}
        self.alias = {}
        self._pending_on_yield = None
        self.assume = None      # scenario runs: atom -> True / False / None
        self.dynamic_ops = {}   # (function, line) -> LockOp matched with the resolver
        self._partition = None
        self.handler_runs = []  # (func, handler node, label, ctx, Out of the handler body)
        self._uid = 0
        self._active = []
        self.stats = {"stmts": 0, "calls_inlined": 0, "max_depth": 0}

    # ------------------------------------------------------------------
    def uid(self):
        self._uid += 1
        return self._uid

    def problem(self, msg):
        if msg not in self.problems:
            self.problems.append(msg)

    # ------------------------------------------------------------------
    def run(self, arg_overrides=None):
        f = self.p.func(self.entry)
        st = State()
        selfterm = ("self", f.cls) if f.cls and not f.is_static else None
        env = {}
        a = f.node.args
        names = [x.arg for x in a.posonlyargs + a.args]
        if selfterm and names and names[0] in ("self", "cls"):
            env[names[0]] = V(selfterm)
            names = names[1:]
        for n in names + [x.arg for x in a.kwonlyargs]:
            env[n] = V(P(n))
        if arg_overrides:
            for k, v in arg_overrides.items():
                env[k] = v
        st.env = env
        frame = Frame(f, (f.qual,), selfterm, 0)
        out = self.call_body(f, st, frame)
        if out.ret is not None:
            self.exits.append(("return", None, out.ret, out.retval))
        for l, s in out.raises.items():
            self.exits.append(("raise", l, s, EMPTY))
        return self

    def call_body(self, f, st, frame):
        """execute a function body; fall-off is `return None`"""
        self._active.append(f.qual)
        try:
            out = self.exec_block(f.node.body, st, frame)
        finally:
            self._active.pop()
        if out.normal is not None:
            out.add_return(out.normal, V(NONE))
            out.normal = None
        return out

    # ------------------------------------------------------------------
    # statements
    # ------------------------------------------------------------------
    def exec_block(self, stmts, st, frame) -> Out:
        total = Out(st)
        states = [st]
        for s in stmts:
            nxt = []
            for cur in states:
                o = self.exec_stmt(s, cur, frame)
                total.absorb(o)
                if o.forks:
                    nxt.extend(o.forks)
                elif o.normal is not None:
                    nxt.append(o.normal)
            if len(nxt) > 4:
                j = None
                for x in nxt[3:]:
                    j = join(j, x)
                nxt = nxt[:3] + [j]
            states = nxt
            if not states:
                break
        cur = None
        for x in states:
            cur = join(cur, x)
        total.normal = cur
        total.ends = states
        return total

    @staticmethod
    def none_correlated(states):
        """do these alternative continuations differ in whether some local is None?  (`x = look_up()` vs `x = None` in a
        handler / other branch: what else is true on each side must stay attached to it - kept apart for the rest of the block)"""
        states = [x for x in states if x is not None]
        if len(states) < 2 or len(states) > 3:
            return False
        keys = set()
        for x in states:
            keys |= set(x.env)
        for k in keys:
            kinds = set()
            if isinstance(k, str) and not k.startswith("<") and any(k not in x.env for x in states):
                # bound on one side only (`if c: x = ...`): a later `if c: use(x)` must meet the side that bound it
                return True
            for x in states:
                v = x.env.get(k)
                if not v:
                    continue
                kinds.add("none" if v == V(NONE) else ("some" if NONE not in v else "mixed"))
            if "none" in kinds and "some" in kinds:
                return True
        return False

    def exec_stmt(self, s, st, frame) -> Out:
        self.stats["stmts"] += 1
        out = Out(None)
        try:
            m = getattr(self, "st_" + type(s).__name__, None)
            if m is None:
                self.problem(f"{self.p.loc(frame.func, s)}: unsupported statement {type(s).__name__}")
                out.normal = st
                return out
            out.normal = m(s, st, frame, out)
        except _Abort:
            out.normal = None
        return out

    # --- simple statements -------------------------------------------------
    def st_Pass(self, s, st, frame, out):
        return st

    def st_Global(self, s, st, frame, out):
        return st

    def st_Nonlocal(self, s, st, frame, out):
        # (what a nested function assigns to a nonlocal name is handed back when its inlined body returns: ExprMixin.inline)
        return st

    def st_Import(self, s, st, frame, out):
        return st

    st_ImportFrom = st_Import

    def st_Expr(self, s, st, frame, out):
        if is_logging_stmt(s):
            return st
        if isinstance(s.value, ast.Yield) and frame.on_yield is not None:
            # body of a `with <contextmanager>()` statement runs here
            if s.value.value is not None:
                yv, st = self.eval(s.value.value, st, frame, out)
            else:
                yv = V(NONE)
            return frame.on_yield(st, yv, out)
        _, st = self.eval(s.value, st, frame, out)
        return st

    def st_Assign(self, s, st, frame, out):
        self._partition = None
        val, st = self.eval(s.value, st, frame, out)
        part = self._partition
        self._partition = None
        if part is not None and part[0] is s.value and len(part[1]) == 2 and len(s.targets) == 1 \
                and isinstance(s.targets[0], ast.Name):
            # the callee returns None on some paths and a value on others: keep the two
            # continuations apart until the end of this block (they are re-joined there), so
            # that must-facts established on one of them survive a following `is None` test
            forks = []
            for pst, pval in part[1]:
                forks.append(self.assign(s.targets[0], pval, pst, frame, out))
            out.forks = forks
            return None
        for t in s.targets:
            st = self.assign(t, val, st, frame, out)
        return st

    def st_AnnAssign(self, s, st, frame, out):
        if s.value is None:
            return st
        val, st = self.eval(s.value, st, frame, out)
        return self.assign(s.target, val, st, frame, out)

    def st_AugAssign(self, s, st, frame, out):
        val, st = self.eval(s.value, st, frame, out)
        cur, st = self.eval(self._as_load(s.target), st, frame, out)
        if isinstance(s.op, ast.Add):
            new = frozenset(cat([a, b]) for a in cur for b in val) if len(cur) * len(val) <= MAXSET else V(("unknown", s.lineno))
            # in-place list extension through an alias is reported by C02.a structurally
        else:
            new = V(("unknown", s.lineno))
        if all(tag(t) == "const" and isinstance(t[1], (int, float)) for t in cur | val):
            new = V(("unknown", s.lineno))
        return self.assign(s.target, new, st, frame, out)

    @staticmethod
    def _as_load(t):
        n = ast.parse(ast.unparse(t), mode="eval").body
        ast.copy_location(n, t)
        for x in ast.walk(n):
            ast.copy_location(x, t)
        return n

    def assign(self, target, val, st, frame, out):
        if self.alias:
            val = frozenset(substitute(t, self.alias) for t in val)
        if isinstance(target, ast.Name):
            return st.bind(target.id, val)
        if isinstance(target, (ast.Tuple, ast.List)):
            n = len(target.elts)
            for i, el in enumerate(target.elts):
                part = set()
                for t in val:
                    if tag(t) == "tuple" and len(t[1]) == n:
                        part |= t[1][i]
                    elif tag(t) == "obj" and len(t[2]) == n and self.p.is_namedtuple(t[1]):
                        part |= t[2][i][1]
                    elif tag(t) == "listof":
                        part |= t[1]
                    else:
                        part.add(("item", t, C(i)))
                st = self.assign(el, frozenset(part), st, frame, out)
            return st
        if isinstance(target, ast.Attribute):
            recv, st = self.eval(target.value, st, frame, out)
            for r in recv:
                if tag(r) == "self":
                    self.attr_assigns[target.attr] = self.attr_assigns.get(target.attr, EMPTY) | val
                    ia = dict(st.iattrs)
                    ia[(r, target.attr)] = val  # strong update on the single self object
                    st = st.set(iattrs=ia)
                elif tag(r) == "inst":
                    ia = dict(st.iattrs)
                    ia[(r, target.attr)] = ia.get((r, target.attr), EMPTY) | val if False else val
                    st = st.set(iattrs=ia)
            return st
        if isinstance(target, ast.Subscript):
            recv, st = self.eval(target.value, st, frame, out)
            key, st = self.eval(target.slice, st, frame, out)
            for r in recv:
                if tag(r) == "list":
                    ls = dict(st.lists)
                    ls[r] = ls.get(r, EMPTY) | val
                    st = st.set(lists=ls)
                elif tag(r) == "dictobj":
                    ls = dict(st.lists)
                    for k in key:
                        ls[(r, k)] = ls.get((r, k), EMPTY) | val
                    ls[(r, "*keys")] = ls.get((r, "*keys"), EMPTY) | key
                    st = st.set(lists=ls)
            return st
        if isinstance(target, ast.Starred):
            return self.assign(target.value, val, st, frame, out)
        self.problem(f"{self.p.loc(frame.func, target)}: unsupported assignment target")
        return st

    def st_Return(self, s, st, frame, out):
        if s.value is None:
            val = V(NONE)
        else:
            val, st = self.eval(s.value, st, frame, out)
        out.add_return(st, val)
        self.return_sites.append((frame.func, s, st, val, frame.ctx))
        return None

    def st_Break(self, s, st, frame, out):
        out.brk = join(out.brk, st)
        return None

    def st_Continue(self, s, st, frame, out):
        out.cont = join(out.cont, st)
        return None

    def st_Assert(self, s, st, frame, out):
        f, st = self.cond(s.test, st, frame, out)
        out.add_raise("AssertionError", st.set(facts=F.add_fact(st.facts, f, False)))
        return st.set(facts=F.add_fact(st.facts, f, True))

    def st_Delete(self, s, st, frame, out):
        return st

    def st_FunctionDef(self, s, st, frame, out):
        fn = getattr(s, "_func", None)
        if fn is not None:
            frame.localfuncs[s.name] = fn
            return st.bind(s.name, V(("func", fn.qual)))
        return st

    def st_Raise(self, s, st, frame, out):
        # the state at every explicit raise statement (what the function itself has done when it gives up)
        self.raise_sites.append((frame.func, s, st, frame.ctx))
        if s.exc is None:
            lab = st.handling[-1] if st.handling else "*"
            out.add_raise(lab, st)
            return None
        e = s.exc
        # evaluate constructor arguments for effects (messages): none matter; find label
        label = None
        if isinstance(e, ast.Call) and isinstance(e.func, ast.Name):
            label = e.func.id
            for a in e.args:
                _, st = self.eval(a, st, frame, out)
            # `raise exc_class(msg)` where exc_class is a local / parameter that holds exception classes
            held = {t[1] for t in st.env.get(e.func.id, EMPTY) if tag(t) == "class"}
            if held:
                for l in sorted(held):
                    out.add_raise(l, st)
                return None
        elif isinstance(e, ast.Name):
            vals = st.env.get(e.id, EMPTY)
            labs = {t[1] for t in vals if tag(t) == "exc"}
            if labs:
                for l in labs:
                    out.add_raise(l, st)
                return None
            if e.id in self.p.exc_classes or hasattr(builtins, e.id):
                label = e.id
        if label is None:
            label = "*"
        if label != "*" and isinstance(e, ast.Call):
            # where the exception now propagating was created: by this function's own raise statement (not by a library call)
            st = st.set(done=frozenset(d for d in st.done if not (isinstance(d, tuple) and d and d[0] == "raised_in")) | {("raised_in", frame.func.qual)})
        out.add_raise(label, st)
        return None

    # --- compound statements --------------------------------------------
    def st_If(self, s, st, frame, out):
        f, st = self.cond(s.test, st, frame, out)
        if self.assume is not None:
            # scenario run: what is assumed about an atom of this test is a fact of the path from here on
            for a in F.atoms_of(f):
                v = self.assume(a)
                if v is not None:
                    st = st.set(facts=F.add_fact(st.facts, a, v))
        dec = self.decide(f, st)
        res = None
        # a branch whose added fact contradicts what this path has already established about the SAME atoms (same probe, same
        # epoch: the abstract path has one answer per atom) is infeasible
        if dec is None:
            ft, ff = F.add_fact(st.facts, f, True), F.add_fact(st.facts, f, False)
            if not F.consistent(ft) and F.consistent(ff):
                dec = False
            elif not F.consistent(ff) and F.consistent(ft):
                dec = True
        if dec is not False:
            st_t = self.refine_probe(f, True, self.refine(s.test, True, st.set(facts=F.add_fact(st.facts, f, True))))
            o = self.exec_block(s.body, st_t, frame)
            out.absorb(o)
            res = join(res, o.normal)
        ends = []
        if dec is not False:
            ends += [x for x in (o.ends or []) if x is not None]
        if dec is not True:
            st_f = self.refine_probe(f, False, self.refine(s.test, False, st.set(facts=F.add_fact(st.facts, f, False))))
            o = self.exec_block(s.orelse, st_f, frame)
            out.absorb(o)
            res = join(res, o.normal)
            ends += [x for x in (o.ends or []) if x is not None]
        if self.none_correlated(ends):
            out.forks = ends
        return res

    @staticmethod
    def refine_probe(f, pol, st):
        """on the branch where an existence probe was negative the probed file does not
        exist: nothing is left to consume / remove for it"""
        neg = False
        while f[0] == "not":
            f, neg = f[1], not neg
        if f[0] == "probe" and f[1] in ("isfile", "exists", "is_file"):
            if pol == neg:
                return st.set(tmps=st.tmps - f[2], pending=st.pending - f[2])
            # tested present: whatever happened to it before, it is there now
            return st.set(gone=st.gone - f[2])
        return st

    def refine(self, test, pol, st):
        """narrow a local's value set by a None / truthiness test on it"""
        if isinstance(test, ast.UnaryOp) and isinstance(test.op, ast.Not):
            return self.refine(test.operand, not pol, st)
        if isinstance(test, ast.BoolOp):
            if (isinstance(test.op, ast.And) and pol) or (isinstance(test.op, ast.Or) and not pol):
                for v in test.values:
                    st = self.refine(v, pol, st)
            return st
        name = None
        want_none = None
        if isinstance(test, ast.Compare) and len(test.ops) == 1 and isinstance(test.left, ast.Name) \
                and isinstance(test.comparators[0], ast.Constant) and test.comparators[0].value is None \
                and isinstance(test.ops[0], (ast.Is, ast.IsNot)):
            name = test.left.id
            want_none = isinstance(test.ops[0], ast.Is) == pol
        elif isinstance(test, ast.Name):
            name = test.id
            want_none = None if pol else "falsy"
            if pol:
                want_none = False
        if name is None or name not in st.env:
            return st
        cur = st.env[name]
        if want_none is True:
            new = frozenset(t for t in cur if self.maybe_none(t) is not False)
            new = frozenset(NONE if self.maybe_none(t) is None else t for t in new) or cur
        elif want_none is False:
            new = frozenset(t for t in cur if t != NONE) or cur
        else:
            return st
        if new == cur:
            return st
        return st.bind(name, new)

    def decide(self, f, st):
        """prune only on pure data facts — never on file-system probes, whose outcome may
        change under our feet (own mutations, other threads)"""
        if f[0] == "lit":
            return f[1]
        if self.assume is not None:
            # scenario run: some file-system probes are fixed by assumption
            asg = {}
            for a in F.atoms_of(f):
                v = self.assume(a)
                if v is not None:
                    asg[a] = v
            if asg:
                # what the path's own facts settle about the remaining (non file-system) atoms
                for a in F.atoms_of(f):
                    if a not in asg and a[0] not in ("probe", "callres"):
                        v = F.implied(st.facts, a)
                        if v is not None:
                            asg[a] = v
                rest = [a for a in F.atoms_of(f) if a not in asg]
                if not rest:
                    return F.evaluate(f, asg)
                vals = set()
                from itertools import product
                if len(rest) <= 6:
                    for bits in product((False, True), repeat=len(rest)):
                        vals.add(F.evaluate(f, {**asg, **dict(zip(rest, bits))}))
                    if len(vals) == 1:
                        return vals.pop()
                return None
        if any(a[0] in ("probe", "callres") for a in F.atoms_of(f)):
            return None
        return F.implied(st.facts, f)

    def st_While(self, s, st, frame, out):
        head = st
        exits = None
        for _ in range(LOOP_BOUND):
            f, hs = self.cond(s.test, head, frame, out)
            dec = self.decide(f, hs)
            if dec is not True:
                exits = join(exits, hs.set(facts=F.add_fact(hs.facts, f, False)))
            if dec is False:
                break
            o = self.exec_block(s.body, hs.set(facts=F.add_fact(hs.facts, f, True)), frame)
            for l, x in o.raises.items():
                out.add_raise(l, x)
            for pst, pval in o.ret_parts():
                out.add_return(pst, pval)
            exits = join(exits, o.brk)
            back = join(o.normal, o.cont)
            if back is None:
                break
            new_head = join(head, back)
            if new_head.key() == head.key():
                break
            head = new_head
        else:
            self.problem(f"{self.p.loc(frame.func, s)}: while loop did not stabilise in {LOOP_BOUND} iterations")
        if s.orelse and exits is not None:
            o = self.exec_block(s.orelse, exits, frame)
            out.absorb(o)
            exits = o.normal
        return exits

    def const_elements(self, it, st):
        """the constants of a small literal collection (class-level list, tuple/list literal of
        constants), in order; None otherwise"""
        if len(it) != 1:
            return None
        t = next(iter(it))
        vals = None
        if tag(t) == "classlist":
            node = self.p.class_attr_assigns(t[1]).get(t[2])
            if isinstance(node, (ast.List, ast.Tuple)) and all(isinstance(e, ast.Constant) for e in node.elts):
                vals = [e.value for e in node.elts]
        elif tag(t) == "list":
            els = st.lists.get(t, EMPTY)
            site = t[1]
            node = None
            # a list literal of constants keeps its source order through its creation site
            f = self.p.funcs.get(site[0]) if isinstance(site, tuple) else None
            if f is not None:
                for n in ast.walk(f.node):
                    if isinstance(n, ast.List) and getattr(n, "lineno", None) == site[1] and getattr(n, "col_offset", None) == site[2]:
                        node = n
            if node is not None and node.elts and all(isinstance(e, ast.Constant) for e in node.elts) \
                    and els == frozenset(C(e.value) for e in node.elts):
                vals = [e.value for e in node.elts]
        elif tag(t) == "tuple" and all(len(x) == 1 and is_const(next(iter(x))) for x in t[1]):
            vals = [next(iter(x))[1] for x in t[1]]
        if vals is None or len(vals) > 12:
            return None
        return vals

    def st_For(self, s, st, frame, out):
        it, st = self.eval(s.iter, st, frame, out)
        consts = self.const_elements(it, st)
        if consts is not None:
            consts = [V(C(c)) for c in consts]
        elif len(it) == 1 and tag(next(iter(it))) == "tuple" and 0 < len(next(iter(it))[1]) <= 12 \
                and all(len(x) == 1 and tag(next(iter(x))) == "tuple" and all(len(y) == 1 for y in next(iter(x))[1]) for x in next(iter(it))[1]):
            # a literal table of (constant, function) rows (`TABLE.items()`): one iteration per row
            consts = list(next(iter(it))[1])
        if consts is not None and not s.orelse:
            # unrolled: one iteration per constant, in order
            cur = st
            exits = None
            for c in consts:
                if cur is None:
                    break
                hs = self.assign(s.target, c, cur, frame, out)
                o = self.exec_block(s.body, hs, frame)
                for l in o.raises:
                    for x in o.raise_states(l):
                        out.add_raise(l, x)
                for pst, pval in o.ret_parts():
                    out.add_return(pst, pval)
                exits = join(exits, o.brk)
                cur = join(o.normal, o.cont)
            return join(exits, cur)
        elems, st = self.elements(it, st, frame, s)
        if any(contains(t, lambda x: tag(x) in ("listed", "listdir")) for t in elems) and not any(x[1] is s for x in self.listing_loops):
            self.listing_loops.append((frame.func, s))
        head = st
        # zero iterations: a tracked list that is empty on this path cannot be what carries
        # the pending markers / temp names it abstractly contains
        exits = st
        for t in it:
            if tag(t) == "list":
                els = st.lists.get(t, EMPTY)
                exits = exits.set(pending=exits.pending - els, tmps=exits.tmps - els)
        for _ in range(LOOP_BOUND):
            hs = self.assign(s.target, elems, head, frame, out)
            o = self.exec_block(s.body, hs, frame)
            if (o.brk is not None or o.ret is not None) and any(contains(t, lambda x: tag(x) in ("listed", "listdir")) for t in elems):
                # a loop over the entries of a directory listing that can stop before the last entry
                kind = "break" if o.brk is not None else "return"
                if not any(r[1] is s and r[2] == kind for r in self.listing_loop_exits):
                    self.listing_loop_exits.append((frame.func, s, kind, frame.ctx))
            for l, x in o.raises.items():
                out.add_raise(l, x)
            for pst, pval in o.ret_parts():
                out.add_return(pst, pval)
            exits = join(exits, o.brk)
            back = join(o.normal, o.cont)
            if back is None:
                break
            exits = join(exits, back)
            new_head = join(head, back)
            # lists may have grown: refresh element set
            elems2, _ = self.elements(it, new_head, frame, s)
            if new_head.key() == head.key() and elems2 == elems:
                break
            head, elems = new_head, elems2
        else:
            self.problem(f"{self.p.loc(frame.func, s)}: for loop did not stabilise in {LOOP_BOUND} iterations")
        if s.orelse and exits is not None:
            o = self.exec_block(s.orelse, exits, frame)
            out.absorb(o)
            exits = o.normal
        return exits

    def st_With(self, s, st, frame, out):
        def resolve(node, _st=st):
            # a local that can only hold condition / claim-list attributes of self
            if isinstance(node, ast.Name):
                vals = _st.env.get(node.id)
                if vals and all(tag(t) == "selfattr" for t in vals):
                    return frozenset(t[1] for t in vals)
            return None

        op = match_with(s, frame.func, self.sync, resolve)
        if op is not None:
            # (a generic helper - `cond, locked = table[kind]` - is one site per condition it is reached with)
            self.dynamic_ops[(frame.func.qual, s.lineno) + ((tuple(sorted(op.cond_set)),) if op.dynamic and op.cond_set else ())] = op
            return self.lock_with(op, s, st, frame, out)
        if len(s.items) == 1 and isinstance(s.items[0].context_expr, ast.Call):
            cm = self.resolve_ctxmgr(s.items[0].context_expr, st, frame)
            if cm is not None:
                return self.with_ctxmgr(cm, s, st, frame, out)
            cfn = s.items[0].context_expr.func
            if isinstance(cfn, ast.Name) and cfn.id in self.p.classes and self.p.method(cfn.id, "__enter__") is not None \
                    and self.p.method(cfn.id, "__exit__") is not None:
                return self.with_class_cm(cfn.id, s, st, frame, out)
        bound = []
        for item in s.items:
            val, st = self.eval(item.context_expr, st, frame, out)
            # `with x as y`: y is what __enter__ returns: the object itself for files,
            # NamedTemporaryFile (a handle on its name) and closing(x)
            ent = set()
            for t in val:
                if tag(t) == "tmpfile":
                    ent.add(("handle", ("tmpname", t[1], t[2]), "wb", t[2]))
                elif tag(t) == "closing":
                    ent.add(t[1])
                else:
                    ent.add(t)
            ent = frozenset(ent)
            if item.optional_vars is not None:
                st = self.assign(item.optional_vars, ent, st, frame, out)
            bound.append((val, ent, item))
        o = self.exec_block(s.body, st, frame)

        def leave(x):
            if x is None:
                return None
            for val, ent, item in reversed(bound):
                x = self.with_exit(val, ent, item, x, frame, out, s)
            return x

        for l, x in o.raises.items():
            out.add_raise(l, leave(x))
        for pst, pval in o.ret_parts():
            out.add_return(leave(pst), pval)
        if o.brk is not None:
            out.brk = join(out.brk, leave(o.brk))
        if o.cont is not None:
            out.cont = join(out.cont, leave(o.cont))
        return leave(o.normal)

    def resolve_ctxmgr(self, call, st, frame):
        fn = call.func
        f = None
        if isinstance(fn, ast.Attribute) and isinstance(fn.value, ast.Name) and fn.value.id == "self" and frame.func.cls:
            f = self.p.method(frame.func.cls, fn.attr)
        elif isinstance(fn, ast.Name):
            f = frame.localfuncs.get(fn.id) or self.p.funcs.get(fn.id)
        if f is not None and getattr(f, "is_ctxmgr", False):
            return f
        return None

    def with_ctxmgr(self, f, s, st, frame, out):
        """`with self._claimed(x) as v: BODY` for an @contextmanager generator: the generator's body
        is inlined and BODY runs at its `yield` (exceptions of BODY surface at the yield, a
        return/break/continue of BODY resumes the generator normally and is re-issued after it)"""
        call = s.items[0].context_expr
        args, kw, st = self.eval_args(call, st, frame, out)
        pending = {"ret": None, "retval": EMPTY, "brk": None, "cont": None}
        caller_frame = frame

        def on_yield(gst, yv, gout):
            genv = gst.env
            bst = gst.set(env=caller_env_box[0])
            if s.items[0].optional_vars is not None:
                bst = self.assign(s.items[0].optional_vars, yv, bst, caller_frame, gout)
            o = self.exec_block(s.body, bst, caller_frame)
            for l in o.raises:
                for x in o.raise_states(l):
                    gout.add_raise(l, x.set(env=genv))
            res = o.normal
            for pst, pval in o.ret_parts():
                pending["ret"] = join(pending["ret"], pst)
                pending["retval"] = pending["retval"] | pval
                res = join(res, pst)
            if o.brk is not None:
                pending["brk"] = join(pending["brk"], o.brk)
                res = join(res, o.brk)
            if o.cont is not None:
                pending["cont"] = join(pending["cont"], o.cont)
                res = join(res, o.cont)
            if res is None:
                return None
            caller_env_box[0] = res.env
            return res.set(env=genv)

        caller_env_box = [st.env]
        selfargs = [V(frame.selfterm)] if (f.cls and not f.is_static and frame.selfterm is not None) else []
        # inline with the yield hook installed on the callee frame
        self._pending_on_yield = on_yield
        try:
            _, after = self.inline(f, selfargs + list(args), kw, st, frame, call, out, selfterm=frame.selfterm)
        finally:
            self._pending_on_yield = None
        if after is None:
            return None
        after = after.set(env=caller_env_box[0])
        if pending["ret"] is not None:
            out.add_return(after, pending["retval"])
        if pending["brk"] is not None:
            out.brk = join(out.brk, after)
        if pending["cont"] is not None:
            out.cont = join(out.cont, after)
        if pending["ret"] is not None and pending["brk"] is None and pending["cont"] is None:
            # conservatively also continue normally unless BODY always returned
            pass
        return after

    def with_class_cm(self, cls, s, st, frame, out):
        """`with Guard(...) as g: BODY` for a class of the package that defines __enter__ / __exit__: the object is constructed,
        __enter__ inlined, BODY executed, and __exit__ inlined on every way out of BODY (like a finally).  An __exit__ that can
        return something truthy would swallow the exception in flight: that is reported as not analysable."""
        call = s.items[0].context_expr
        args, kw, st = self.eval_args(call, st, frame, out)
        inst_v, st = self.construct(cls, args, kw, call, st, frame, out)
        if st is None:
            return None
        entered, st = self.inline(self.p.method(cls, "__enter__"), [inst_v], {}, st, frame, call, out, selfterm=next(iter(inst_v)))
        if st is None:
            return None
        if s.items[0].optional_vars is not None:
            st = self.assign(s.items[0].optional_vars, entered, st, frame, out)
        body = self.exec_block(s.body, st, frame)
        exit_f = self.p.method(cls, "__exit__")

        def leave(state, exc=False):
            tmp = Out(None)
            a3 = [V(("unknown", "exc_type"))] * 3 if exc else [V(NONE)] * 3
            rv, st2 = self.inline(exit_f, [inst_v] + a3, {}, state, frame, call, tmp, selfterm=next(iter(inst_v)))
            for l in tmp.raises:
                for x in tmp.raise_states(l):
                    out.add_raise(l, x)
            if exc and st2 is not None and any(t not in (FALSE, NONE) for t in rv):
                self.problem(f"{self.p.loc(frame.func, s)}: {cls}.__exit__ may return a true value (it would swallow the exception in flight): not modelled")
            return st2

        res = None
        if body.normal is not None:
            res = leave(body.normal)
        for pst, pval in body.ret_parts():
            st2 = leave(pst)
            if st2 is not None:
                out.add_return(st2, pval)
        for l in body.raises:
            for x in body.raise_states(l):
                st2 = leave(x.set(handling=x.handling + (l,)), exc=True)
                if st2 is not None:
                    out.add_raise(l, st2.set(handling=x.handling))
        if body.brk is not None:
            out.brk = join(out.brk, leave(body.brk))
        if body.cont is not None:
            out.cont = join(out.cont, leave(body.cont))
        return res

    def with_exit(self, val, ent, item, st, frame, out, node):
        for t in val:
            if tag(t) in ("handle",):
                st = self.emit("CLOSE", "close", [V(t[1])], node, st, frame, extra={"handle": t})
                st = st.set(done=(st.done - {("flocked", t)}) | {("closed", t[1])})
            elif tag(t) == "tmpfile":
                nm = ("tmpname", t[1], t[2])
                st = self.emit("CLOSE", "close", [V(nm)], node, st, frame, extra={"handle": t})
                st = st.set(done=st.done | {("closed", nm)})
            elif tag(t) == "closing":
                inner = t[1]
                if tag(inner) == "inst":
                    m = self.p.method(inner[1], "close")
                    if m is not None:
                        tmp = Out(None)
                        _, st2 = self.inline(m, [V(inner)], {}, st, frame, node, tmp)
                        # close() raising inside __exit__ propagates
                        for l, x in tmp.raises.items():
                            out.add_raise(l, x)
                        st = st2 if st2 is not None else st
                st = st.set(done=st.done | {("closed", inner)})
        return st

    def lock_with(self, op, s, st, frame, out):
        want = self.mode
        if op.mode is not None and op.mode != want:
            # the other mode's primitives: only reachable if the guard is wrong (C16 rules)
            pass
        key = None
        if op.key is not None:
            kv, st = self.eval(op.key, st, frame, out)
            key = self.lock_key(kv)
        cls = op.cls
        rec = {"op": op, "cls": cls, "key": key, "ctx": frame.ctx, "func": frame.func, "state": st,
               "entry": self.entry, "mode": self.mode}
        if op.kind == "acquire":
            if op.wait_key is not None:
                wk, st = self.eval(op.wait_key, st, frame, out)
                rec["wait_key"] = self.lock_key(wk)
            rec["kind"] = "acquire"
            self.lock_events.append(rec)
            for r in getattr(op, "wait_raises", []):
                # a wait that gives up (timeout) leaves the helper by this raise, the identifier NOT claimed
                lab = "*"
                if r.exc is not None and isinstance(r.exc, ast.Call) and isinstance(r.exc.func, ast.Name):
                    lab = r.exc.func.id
                elif isinstance(r.exc, ast.Name):
                    lab = r.exc.id
                out.add_raise(lab if lab in self.p.exc_classes or lab == "*" else lab, st)
            lk = (cls, key)
            st = st.set(held_must=st.held_must | {lk}, held_may=st.held_may | {lk})
            rec["after"] = st
            return st
        if op.kind == "release":
            rec["kind"] = "release"
            self.lock_events.append(rec)
            lk = (cls, key)
            rec["held"] = lk in st.held_must
            rec["held_may"] = lk in st.held_may
            rec["handling"] = st.handling
            probes = frozenset((c, k, h - {lk}) for (c, k, h) in st.probes)
            rec["conditional"] = getattr(op, "conditional", False)
            if lk not in st.held_must and getattr(op, "conditional", False):
                # tolerant release: nothing raises; if the key is in the list it is another caller's claim that goes
                if lk not in st.held_may:
                    rec["after"] = st
                    return st
            elif lk not in st.held_must:
                # list.remove(x) raises ValueError when this call does not hold the claim (it then
                # either fails, or - worse - removes another caller's claim of the same key)
                out.add_raise("ValueError", st)
                if lk not in st.held_may:
                    rec["after"] = None
                    return None
            st = st.set(held_must=st.held_must - {lk}, held_may=st.held_may - {lk}, probes=probes)
            rec["after"] = st
            return st
        if op.kind == "tryclaim":
            rec["kind"] = "tryclaim"
            self.lock_events.append(rec)
            lab = "*"
            r = op.raise_node
            if r is not None and isinstance(r.exc, ast.Call) and isinstance(r.exc.func, ast.Name):
                lab = r.exc.func.id
            rec["label"] = lab
            out.add_raise(lab, st)
            return st
        rec["kind"] = "unknown"
        self.lock_events.append(rec)
        # interpret the body generically so that its effects are still seen
        o = self.exec_block(s.body, st, frame)
        out.absorb(o)
        return o.normal

    @staticmethod
    def lock_key(v):
        if len(v) == 1:
            return next(iter(v))
        return ("alt", tuple(sorted(v, key=repr)))

    # --- try ---------------------------------------------------------------
    def st_Try(self, s, st, frame, out):
        body = self.exec_block(s.body, st, frame)
        inner = Out(None)  # outcomes after handlers/else, before finally
        inner.normal = None
        # else clause
        if body.normal is not None:
            if s.orelse:
                o = self.exec_block(s.orelse, body.normal, frame)
                inner.absorb(o)
                inner.normal = o.normal
            else:
                inner.normal = body.normal
        try_normals = [inner.normal] if inner.normal is not None else []
        for pst, pval in body.ret_parts():
            inner.add_return(pst, pval)
        inner.brk = join(inner.brk, body.brk)
        inner.cont = join(inner.cont, body.cont)
        # handlers
        for label, rst in [(l, x) for l in body.raises for x in body.raise_states(l)]:
            remaining = True
            for h in s.handlers:
                m = self.match_handler(label, h)
                if m is None:
                    continue
                hs = rst.set(handling=rst.handling + (label,))
                if h.name:
                    hs = hs.bind(h.name, V(("exc", label)))
                hs = hs.set(done=hs.done | {("caught", frame.func.qual, h.lineno)})
                o = self.exec_block(h.body, hs, frame)
                o.entry = hs

                def unh(x):
                    return None if x is None else x.set(handling=rst.handling)

                for l, x in o.raises.items():
                    inner.add_raise(l, unh(x))
                for pst, pval in o.ret_parts():
                    inner.add_return(unh(pst), pval)
                inner.brk = join(inner.brk, unh(o.brk))
                inner.cont = join(inner.cont, unh(o.cont))
                inner.normal = join(inner.normal, unh(o.normal))
                if o.normal is not None:
                    try_normals.append(unh(o.normal))
                self.handler_runs.append((frame.func, h, label, frame.ctx, o))
                if m == "definite":
                    remaining = False
                    break
            if remaining:
                inner.add_raise(label, rst)
        if not s.finalbody:
            out.absorb(inner)
            if self.none_correlated(try_normals):
                out.forks = try_normals
            return inner.normal
        # finally: run once per continuation kind
        res = None
        if inner.normal is not None:
            o = self.exec_block(s.finalbody, inner.normal, frame)
            out.absorb(o)
            res = o.normal
        for pst, pval in inner.ret_parts():
            o = self.exec_block(s.finalbody, pst, frame)
            out.absorb(o)
            if o.normal is not None:
                out.add_return(o.normal, pval)
        for l, x in [(l, x) for l in inner.raises for x in inner.raise_states(l)]:
            o = self.exec_block(s.finalbody, x.set(handling=x.handling + (l,)), frame)
            out.absorb(o)
            if o.normal is not None:
                out.add_raise(l, o.normal.set(handling=x.handling))
        if inner.brk is not None:
            o = self.exec_block(s.finalbody, inner.brk, frame)
            out.absorb(o)
            out.brk = join(out.brk, o.normal)
        if inner.cont is not None:
            o = self.exec_block(s.finalbody, inner.cont, frame)
            out.absorb(o)
            out.cont = join(out.cont, o.normal)
        return res

    st_TryStar = st_Try

    # label matching ---------------------------------------------------------
    def handler_types(self, h):
        if h.type is None:
            return ["BaseException"]
        if isinstance(h.type, ast.Tuple):
            return [ast.unparse(e) for e in h.type.elts]
        return [ast.unparse(h.type)]

    def match_handler(self, label, h):
        """'definite' / 'maybe' / None"""
        types = self.handler_types(h)
        res = None
        for t in types:
            t = {"IOError": "OSError", "EnvironmentError": "OSError"}.get(t, t)
            if t in ("BaseException",):
                return "definite"
            if t == "Exception":
                if label == "KeyboardInterrupt":
                    continue
                return "definite"
            if label == "*":
                # an exception raised by library code: never one of the repository's own
                # classes; may be any built-in Exception subclass
                if t in self.p.exc_classes:
                    continue
                bt = getattr(builtins, t, None)
                if isinstance(bt, type) and issubclass(bt, Exception):
                    res = "maybe"
                continue
            if label in self.p.exc_classes:
                if t == label or t in self._custom_bases(label):
                    return "definite"
                continue
            bl = getattr(builtins, {"IOError": "OSError"}.get(label, label), None)
            bt = getattr(builtins, t, None)
            if isinstance(bl, type) and isinstance(bt, type):
                if issubclass(bl, bt):
                    return "definite"
                if issubclass(bt, bl):
                    res = "maybe"
        return res

    def _custom_bases(self, name, seen=None):
        seen = seen or set()
        out = set()
        for b in self.p.exc_classes.get(name, ()):
            if b in seen:
                continue
            seen.add(b)
            out.add(b)
            out |= self._custom_bases(b, seen)
        return out

    # ------------------------------------------------------------------
    # events
    # ------------------------------------------------------------------
    def emit(self, kind, prim, paths, node, st, frame, extra=None):
        """record a primitive effect; returns the updated state"""
        classes = [frozenset(classify(t) for t in v) for v in paths]
        site_func, site_node = frame.site_for(node, paths[0] if paths else EMPTY)
        extra = dict(extra or {})
        extra["site_func"] = site_func
        extra["site_node"] = site_node
        # the primitive's own node and every call node through which this frame was reached, innermost first
        chain = [(frame.func, node)]
        fr_ = frame
        while fr_.parent is not None and fr_.callnode is not None:
            chain.append((fr_.parent.func, fr_.callnode))
            fr_ = fr_.parent
        extra["callchain"] = chain
        uid = (frame.func.qual, getattr(node, "lineno", 0), getattr(node, "col_offset", 0), frame.ctx, st.handling)
        ev = Event(kind=kind, prim=prim, paths=paths, classes=classes, func=frame.func, node=node,
                   line=getattr(node, "lineno", 0), ctx=frame.ctx, entry=self.entry, mode=self.mode,
                   held_must=st.held_must, held_may=st.held_may, facts=st.facts, done=st.done,
                   probes=st.probes, gone=st.gone, handling=st.handling, uid=uid, extra=extra or {},
                   lists=None)
        self.events.append(ev)
        # ---- state transfer
        if kind in ("PROBE", "READ") and paths:
            pr = set(st.probes)
            for c in classes[0]:
                if c.cls in ("OBJ", "CIDREFS", "PIDREFS", "META", "METADIR"):
                    pr.add((c.cls, (c.key, c.extra) if c.cls == "META" else c.key, st.held_must))
            st = st.set(probes=frozenset(pr))
        if kind in ("CREATE", "WRITE", "RENAME", "REMOVE"):
            st = st.set(muts=st.muts | {uid[:3]})
        if kind == "RENAME" and len(paths) >= 2:
            gone = set(st.gone)
            pend = set(st.pending)
            tmps = set(st.tmps)
            for t in paths[0]:
                if not is_summary(t):
                    gone.add(t)
                tmps.discard(t)
            for t in paths[1]:
                gone.discard(t)
                if classify(t).cls == "MARKER" and not is_summary(t):
                    pend.add(t)
            st = st.set(gone=frozenset(gone), pending=frozenset(pend), tmps=frozenset(tmps))
        if kind == "REMOVE" and paths:
            pend = set(st.pending)
            tmps = set(st.tmps)
            gone = set(st.gone)
            for t in paths[0]:
                pend.discard(t)
                tmps.discard(t)
                if not is_summary(t):
                    gone.add(t)
            st = st.set(pending=frozenset(pend), tmps=frozenset(tmps), gone=frozenset(gone))
        if kind == "CREATE" and paths:
            gone = st.gone - paths[0]
            tmps = st.tmps | frozenset(t for t in paths[0] if tag(t) == "tmpname")
            st = st.set(gone=gone, tmps=tmps)
        dn = set(st.done)
        if prim.startswith("file."):
            dn.add(("op", prim, extra.get("handle")))
        for i, cs in enumerate(classes):
            for c in cs:
                dn.add(("prim", kind, i, c.cls))
        st = st.set(done=frozenset(dn))
        return st
