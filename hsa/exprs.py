"""Expression evaluation, call resolution and inlining for the abstract interpreter."""

from __future__ import annotations

import ast
import builtins as builtins_mod

from . import facts as F
from . import prims as PR
from .locks import LOG_METHODS, _logger_local
from .state import State, Out, join, Abort
from .terms import (AnalysisError, C, P, V, J, ROOT, NONE, TRUE, FALSE, EMPTY, tag, cat, parent,
                    basename, is_const, is_rooted, classify, MAXSET)

NONRAISING_METHODS = {
    "get", "lower", "upper", "strip", "replace", "isdigit", "isspace", "join", "hexdigest",
    "startswith", "endswith", "split", "items", "keys", "values", "format", "copy", "decode",
    "encode", "append", "extend",
}

DEPTH_BOUND = 10


def _cap(vals, where):
    if len(vals) > MAXSET:
        raise AnalysisError(f"{where}: value set larger than {MAXSET} terms")
    return frozenset(vals)


class ExprMixin:
    # ------------------------------------------------------------------
    def dotted(self, node, frame, st=None):
        """resolve Name / Attribute chains through the module's imports: 'os.path.isfile'"""
        parts = []
        n = node
        while isinstance(n, ast.Attribute):
            parts.append(n.attr)
            n = n.value
        if not isinstance(n, ast.Name):
            return None
        if st is not None and n.id in st.env:
            return None
        base = frame.func.module.imports.get(n.id)
        if base is None:
            return None
        return ".".join([base] + list(reversed(parts)))

    # ------------------------------------------------------------------
    def eval(self, node, st, frame, out):
        m = getattr(self, "ex_" + type(node).__name__, None)
        if m is None:
            self.problem(f"{self.p.loc(frame.func, node)}: unsupported expression {type(node).__name__}")
            return V(("unknown", getattr(node, "lineno", 0))), st
        return m(node, st, frame, out)

    def ex_Constant(self, n, st, frame, out):
        return V(C(n.value)), st

    def ex_Name(self, n, st, frame, out):
        if n.id in st.env:
            mu = st.env.get("<maybe-unbound>")
            if mu and ("const", n.id) in mu and isinstance(n.ctx, ast.Load):
                # bound on some of the paths that reach this read only: UnboundLocalError on the others
                self.raise_star(st, out)
                self.maybe_unbound.append((frame.func.qual, n.id, getattr(n, "lineno", 0)))
            for t in st.env[n.id]:
                if tag(t) == "func" and t[1] in self.p.funcs and self.p.funcs[t[1]].parent is frame.func:
                    # a nested function taken as a value (handed on as an argument): remember the locals it closes over
                    self.closure_env[t[1]] = dict(st.env)
            return st.env[n.id], st
        if n.id in frame.localfuncs:
            self.closure_env[frame.localfuncs[n.id].qual] = dict(st.env)
            return V(("func", frame.localfuncs[n.id].qual)), st
        if n.id in self.p.classes:
            return V(("class", n.id)), st
        if n.id in ("True", "False", "None"):
            return V(C({"True": True, "False": False, "None": None}[n.id])), st
        imp = frame.func.module.imports.get(n.id)
        if imp:
            return V(("module", imp)), st
        if n.id in self.p.funcs:
            return V(("func", n.id)), st
        g = self.module_literal(frame.func.module, n.id)
        if g is not None:
            return self.eval(g, st.set(env={}), frame, out)[0], st
        # enclosing function's locals (closures): look up the dynamic parent env is not
        # modelled; closures in this package only read `tmp`
        cl = getattr(st, "env", {}).get("<closure>")
        # a local of this function (it is assigned somewhere in it) that no path to here has bound: UnboundLocalError
        fnode = frame.func.node
        cache = getattr(fnode, "_local_stores", None)
        if cache is None:
            cache = {x.id for x in ast.walk(fnode) if isinstance(x, ast.Name) and isinstance(x.ctx, ast.Store)} | \
                    {h_.name for h_ in ast.walk(fnode) if isinstance(h_, ast.ExceptHandler) and h_.name}
            fnode._local_stores = cache
        mod = frame.func.module
        gl = getattr(mod, "_global_names", None)
        if gl is None:
            gl = set(dir(builtins_mod))

            def top(body):
                for st_ in body:
                    if isinstance(st_, (ast.FunctionDef, ast.AsyncFunctionDef, ast.ClassDef)):
                        gl.add(st_.name)
                    elif isinstance(st_, (ast.Import, ast.ImportFrom)):
                        gl.update((a.asname or a.name).split(".")[0] for a in st_.names)
                    elif isinstance(st_, (ast.Assign, ast.AnnAssign, ast.AugAssign)):
                        for x in ast.walk(st_):
                            if isinstance(x, ast.Name) and isinstance(x.ctx, ast.Store):
                                gl.add(x.id)
                    elif isinstance(st_, (ast.If, ast.Try, ast.With, ast.For, ast.While)):
                        for fld in ("body", "orelse", "finalbody"):
                            top(getattr(st_, fld, []) or [])
                        for h_ in getattr(st_, "handlers", []) or []:
                            top(h_.body)
            top(mod.tree.body)
            mod._global_names = gl
        if isinstance(n.ctx, ast.Load) and (n.id in cache or n.id not in gl):
            self.raise_star(st, out)
            self.unbound.append((frame.func.qual, n.id, getattr(n, "lineno", 0)))
        return V(("unknown", f"name:{n.id}")), st

    @staticmethod
    def module_literal(module, name):
        """value node of a module-level constant table: assigned exactly once at top level, a literal
        (dict / list / tuple / constant) built only from constants and names of functions"""
        hits = [s_ for s_ in module.tree.body if isinstance(s_, (ast.Assign, ast.AnnAssign))
                and any(isinstance(t, ast.Name) and t.id == name for t in (s_.targets if isinstance(s_, ast.Assign) else [s_.target]))]
        if len(hits) != 1 or hits[0].value is None:
            return None
        for x in ast.walk(module.tree):
            if x is not hits[0] and isinstance(x, (ast.Assign, ast.AugAssign, ast.AnnAssign, ast.Global)):
                tg = x.names if isinstance(x, ast.Global) else [t.id for t in ast.walk(x) if isinstance(t, ast.Name) and isinstance(t.ctx, ast.Store)]
                if name in tg:
                    return None
        v = hits[0].value
        ok = (ast.Dict, ast.List, ast.Tuple, ast.Constant, ast.Name, ast.Load)
        if not isinstance(v, (ast.Dict, ast.List, ast.Tuple, ast.Constant)) or not all(isinstance(x, ok) for x in ast.walk(v)):
            return None
        return v

    def ex_JoinedStr(self, n, st, frame, out):
        parts = []
        combos = [[]]
        for v in n.values:
            if isinstance(v, ast.Constant):
                for c in combos:
                    c.append(C(v.value))
            else:
                val, st = self.eval(v.value, st, frame, out)
                if len(val) * len(combos) > MAXSET:
                    return V(("unknown", n.lineno)), st
                combos = [c + [t] for c in combos for t in val]
        return frozenset(cat(c) for c in combos), st

    def ex_FormattedValue(self, n, st, frame, out):
        return self.eval(n.value, st, frame, out)

    def ex_Tuple(self, n, st, frame, out):
        vals = []
        for e in n.elts:
            if isinstance(e, ast.Starred):
                v, st = self.eval(e.value, st, frame, out)
                vals.append(frozenset(("spread", t) for t in v))
            else:
                v, st = self.eval(e, st, frame, out)
                vals.append(v)
        return V(("tuple", tuple(vals))), st

    def ex_List(self, n, st, frame, out):
        lid = ("list", (frame.func.qual, n.lineno, n.col_offset, frame.ctx))
        elems = set()
        for e in n.elts:
            if isinstance(e, ast.Starred):
                v, st = self.eval(e.value, st, frame, out)
                ev, st = self.elements(v, st, frame, n)
                elems |= ev
            else:
                v, st = self.eval(e, st, frame, out)
                elems |= v
        ls = dict(st.lists)
        ls[lid] = frozenset(elems)
        return V(lid), st.set(lists=ls)

    def ex_Set(self, n, st, frame, out):
        elems = set()
        for e in n.elts:
            v, st = self.eval(e, st, frame, out)
            elems |= v
        return V(("listof", frozenset(elems))), st

    def ex_Dict(self, n, st, frame, out):
        if not n.keys:
            did = ("dictobj", (frame.func.qual, n.lineno, n.col_offset, frame.ctx))
            return V(did), st
        items = []
        for k, v in zip(n.keys, n.values):
            if k is None:
                _, st = self.eval(v, st, frame, out)
                continue
            kv, st = self.eval(k, st, frame, out)
            vv, st = self.eval(v, st, frame, out)
            for kt in kv:
                items.append((kt, vv))
        return V(("dictlit", tuple(items))), st

    def ex_IfExp(self, n, st, frame, out):
        f, st = self.cond(n.test, st, frame, out)
        dec = self.decide(f, st)
        vals = set()
        res = None
        if dec is not False:
            v, s1 = self.eval(n.body, st.set(facts=F.add_fact(st.facts, f, True)), frame, out)
            vals |= v
            res = join(res, s1.set(facts=st.facts))
        if dec is not True:
            v, s2 = self.eval(n.orelse, st.set(facts=F.add_fact(st.facts, f, False)), frame, out)
            vals |= v
            res = join(res, s2.set(facts=st.facts))
        return frozenset(vals), res

    def ex_BoolOp(self, n, st, frame, out):
        if isinstance(n.op, ast.Or):
            # value position: `a or b` yields a when a is truthy, else b
            vals = []
            for v in n.values:
                x, st = self.eval(v, st, frame, out)
                vals.append(x)
            return V(("orelse", tuple(vals))), st
        f, st = self.cond(n, st, frame, out)
        return V(("bool", f)), st

    def ex_Compare(self, n, st, frame, out):
        f, st = self.cond(n, st, frame, out)
        if f[0] == "lit":
            return V(C(f[1])), st
        return V(("bool", f)), st

    def ex_UnaryOp(self, n, st, frame, out):
        if isinstance(n.op, ast.Not):
            f, st = self.cond(n, st, frame, out)
            if f[0] == "lit":
                return V(C(f[1])), st
            return V(("bool", f)), st
        v, st = self.eval(n.operand, st, frame, out)
        if isinstance(n.op, ast.USub) and all(is_const(t) and isinstance(t[1], (int, float)) for t in v):
            return frozenset(C(-t[1]) for t in v), st
        return V(("unknown", n.lineno)), st

    def ex_BinOp(self, n, st, frame, out):
        l, st = self.eval(n.left, st, frame, out)
        r, st = self.eval(n.right, st, frame, out)
        if len(l) * len(r) > MAXSET:
            return V(("unknown", n.lineno)), st
        if isinstance(n.op, ast.Add):
            res = set()
            for a in l:
                for b in r:
                    if tag(a) == "list" or tag(b) == "list" or tag(a) == "listof" or tag(b) == "listof":
                        ea, st = self.elements(V(a), st, frame, n)
                        eb, st = self.elements(V(b), st, frame, n)
                        res.add(("listof", ea | eb))
                    else:
                        res.add(cat([a, b]))
            return frozenset(res), st
        if isinstance(n.op, ast.Div):
            return frozenset(J([a, b]) for a in l for b in r), st
        if isinstance(n.op, ast.Mod):
            if not all(is_const(a) and isinstance(a[1], str) for a in l):
                # printf-style formatting with run-time data in the FORMAT string raises on a stray `%`
                self.raise_star(st, out)
            return frozenset(cat([a, ("fmtargs", b)]) if False else a for a in l), st
        return V(("arith", type(n.op).__name__, l, r)), st

    def ex_Starred(self, n, st, frame, out):
        v, st = self.eval(n.value, st, frame, out)
        return frozenset(("spread", t) for t in v), st

    def ex_NamedExpr(self, n, st, frame, out):
        v, st = self.eval(n.value, st, frame, out)
        st = self.assign(n.target, v, st, frame, out)
        return v, st

    def ex_Lambda(self, n, st, frame, out):
        # a closure value: its body is evaluated, where it is called, in the locals it was created in (plus its parameters)
        lid = ("lambda", (frame.func.qual, n.lineno, n.col_offset, frame.ctx))
        self.lambdas[lid] = (n, frame, dict(st.env))
        return V(lid), st

    def ex_Slice(self, n, st, frame, out):
        return V(("unknown", getattr(n, "lineno", 0))), st

    @staticmethod
    def _neg_len(e):
        """N for the literal forms `-N` and `-len("...")`, else None"""
        if isinstance(e, ast.UnaryOp) and isinstance(e.op, ast.USub):
            o = e.operand
            if isinstance(o, ast.Constant) and isinstance(o.value, int) and not isinstance(o.value, bool):
                return o.value
            if isinstance(o, ast.Call) and isinstance(o.func, ast.Name) and o.func.id == "len" and len(o.args) == 1 \
                    and isinstance(o.args[0], ast.Constant) and isinstance(o.args[0].value, str):
                return len(o.args[0].value)
        return None

    def ex_Subscript(self, n, st, frame, out):
        recv, st = self.eval(n.value, st, frame, out)
        if isinstance(n.slice, ast.Slice):
            sl = n.slice
            if sl.lower is None and sl.upper is None and sl.step is None and recv and not any(is_const(t) or tag(t) in ("param", "strop", "cat") for t in recv):
                # `x[:]` of a container is a fresh copy: a tracked list, like list(x)
                el, st = self.elements(recv, st, frame, n)
                lid = ("list", (frame.func.qual, n.lineno, n.col_offset, frame.ctx))
                ls = dict(st.lists)
                ls[lid] = el
                return V(lid), st.set(lists=ls)
            cut = self._neg_len(sl.upper) if sl.lower is None and sl.step is None else None

            def unmark(t):
                # `marker[:-len("_delete")]`: a deletion marker (sibling named stem + S + suffix) cut by len(S) is the
                # original path again (the names are digests and listed documents: no suffix)
                if cut and tag(t) == "sibling" and tag(t[2]) == "cat":
                    cs = [x for x in t[2][1] if is_const(x) and isinstance(x[1], str)]
                    if len(cs) == 1 and len(cs[0][1]) == cut and all(tag(x) in ("stem", "suffix") or x is cs[0] for x in t[2][1]):
                        return t[1]
                return ("slice", t)
            return frozenset(unmark(t) for t in recv), st
        key, st = self.eval(n.slice, st, frame, out)
        if self.assume is not None and recv and all(tag(r) == "yaml" for r in recv):
            # scenario "this key is absent from the loaded configuration": the subscript raises KeyError
            a = ("cmp", "in", key, recv)
            if self.assume(a) is False or F.implied(st.facts, a) is False:
                out.add_raise("KeyError", st)
                raise self._abort()
        return self.getitem(recv, key, st, n), st

    def getitem(self, recv, key, st, node, default=None):
        res = set()
        for r in recv:
            tg = tag(r)
            if tg == "dictlit":
                hit = False
                for k in key:
                    for (kt, vv) in r[1]:
                        if kt == k:
                            res |= vv
                            hit = True
                if not hit:
                    for k in key:
                        res.add(("item", r, k))
            elif tg == "dictobj":
                for k in key:
                    got = st.lists.get((r, k))
                    if got:
                        res |= got
                    else:
                        allk = st.lists.get((r, "*keys"), EMPTY)
                        if not all(is_const(x) for x in allk | {k}):
                            for kk in allk:
                                res |= st.lists.get((r, kk), EMPTY)
                        res.add(("item", r, k)) if not got and not allk else None
            elif tg == "tuple":
                for k in key:
                    if is_const(k) and isinstance(k[1], int) and -len(r[1]) <= k[1] < len(r[1]):
                        res |= r[1][k[1]]
                    else:
                        for x in r[1]:
                            res |= x
            elif tg in ("list",):
                res |= st.lists.get(r, EMPTY)
            elif tg == "listof":
                res |= r[1]
            elif tg == "obj" and self.p.is_namedtuple(r[1]):
                for k in key:
                    if is_const(k) and isinstance(k[1], int) and -len(r[2]) <= k[1] < len(r[2]):
                        res |= r[2][k[1]][1]
                    else:
                        for _f, x in r[2]:
                            res |= x
            else:
                for k in key:
                    res.add(("item", r, k))
        return _cap(res, f"line {getattr(node, 'lineno', 0)}")

    def ex_Attribute(self, n, st, frame, out):
        d = self.dotted(n, frame, st)
        if d is not None:
            return V(("module", d)), st
        recv, st = self.eval(n.value, st, frame, out)
        res = set()
        for r in recv:
            res |= self.getattr_term(r, n.attr, st, frame, n)
        return _cap(res, self.p.loc(frame.func, n)), st

    def getattr_term(self, r, attr, st, frame, node):
        tg = tag(r)
        if tg == "probe" and r[1] == "stat" and attr == "st_size":
            return V(("probe", "getsize", r[2], r[3]))
        if tg == "self":
            got = st.iattrs.get((r, attr))
            if got is not None:
                return got
            if attr in self.path_attrs:
                return self.path_attrs[attr]
            if self.p.method(r[1], attr) is not None:
                return V(("boundmethod", r, attr))
            ca = self.class_const(r[1], attr)
            if ca is not None:
                return ca
            return V(("selfattr", attr))
        if tg == "class":
            ca = self.class_const(r[1], attr)
            if ca is not None:
                return ca
            if self.p.method(r[1], attr) is not None:
                return V(("func", f"{r[1]}.{attr}"))
            return V(("selfattr", attr))
        if tg == "inst":
            got = st.iattrs.get((r, attr))
            if got is not None:
                return got
            if r[1] in self.p.classes and self.p.method(r[1], attr) is not None:
                return V(("boundmethod", r, attr))
            return V(("iattr", r, attr))
        if tg == "obj":
            for (f, vv) in r[2]:
                if f == attr:
                    return vv
            return V(("iattr", r, attr))
        if tg == "direntry":
            if attr == "name":
                return V(("listed", r[1]))
            if attr == "path":
                return V(J([r[1], ("listed", r[1])]))
        if tg == "tmpfile" and attr == "name":
            return V(("tmpname", r[1], r[2]))
        if tg == "handle" and attr == "name":
            return V(r[1])
        if attr == "parent":
            return V(parent(r))
        if attr == "name":
            return V(basename(r))
        if attr == "stem":
            return V(("stem", r))
        if attr == "suffix":
            return V(("suffix", r))
        if tg == "argsns":
            return V(("opt", attr))
        return V(("iattr", r, attr))

    def class_const(self, cls, attr):
        try:
            assigns = self.p.class_attr_assigns(cls)
        except AnalysisError:
            return None
        v = assigns.get(attr)
        if v is None:
            return None
        if isinstance(v, ast.Constant):
            return V(C(v.value))
        if isinstance(v, (ast.List, ast.Tuple)):
            return V(("classlist", cls, attr))
        if isinstance(v, ast.Dict) and v.keys and all(isinstance(k, ast.Constant) for k in v.keys) and all(isinstance(x, ast.Constant) for x in v.values):
            # a class-level table of constants (entity name -> attribute name, ...)
            return V(("dictlit", tuple((C(k.value), V(C(x.value))) for k, x in zip(v.keys, v.values))))
        return None

    def ex_ListComp(self, n, st, frame, out):
        return self._comp(n, n.elt, st, frame, out)

    ex_GeneratorExp = ex_ListComp
    ex_SetComp = ex_ListComp

    def _comp(self, n, elt, st, frame, out):
        saved = st.env
        if len(n.generators) == 1:
            g = n.generators[0]
            it, st0 = self.eval(g.iter, st, frame, out)
            consts = self.const_elements(it, st0)
            if consts is not None:
                # unrolled over a small constant collection: element-wise result
                parts = []
                cur = st0
                for c in consts:
                    cur = self.assign(g.target, V(C(c)), cur, frame, out)
                    keep = True
                    for cnd in g.ifs:
                        f, cur = self.cond(cnd, cur, frame, out)
                        if self.decide(f, cur) is False:
                            keep = False
                    if keep:
                        v, cur = self.eval(elt, cur, frame, out)
                        parts.append(v)
                cur = cur.set(env=saved)
                if isinstance(n, ast.ListComp):
                    return V(("tuple", tuple(parts))), cur
                u = frozenset()
                for p_ in parts:
                    u |= p_
                return V(("listof", u)), cur
        for g in n.generators:
            it, st = self.eval(g.iter, st, frame, out)
            el, st = self.elements(it, st, frame, n)
            st = self.assign(g.target, el, st, frame, out)
            for c in g.ifs:
                _, st = self.cond(c, st, frame, out)
        v, st = self.eval(elt, st, frame, out)
        st = st.set(env=saved)
        return V(("listof", v)), st

    def ex_DictComp(self, n, st, frame, out):
        saved = st.env
        if len(n.generators) == 1:
            g = n.generators[0]
            it, st0 = self.eval(g.iter, st, frame, out)
            consts = self.const_elements(it, st0)
            if consts is not None:
                items = []
                cur = st0
                for c in consts:
                    cur = self.assign(g.target, V(C(c)), cur, frame, out)
                    keep = True
                    for cnd in g.ifs:
                        f, cur = self.cond(cnd, cur, frame, out)
                        if self.decide(f, cur) is False:
                            keep = False
                    if keep:
                        kv, cur = self.eval(n.key, cur, frame, out)
                        vv, cur = self.eval(n.value, cur, frame, out)
                        for kt in kv:
                            items.append((kt, vv))
                return V(("dictlit", tuple(items))), cur.set(env=saved)
        return V(("unknown", n.lineno)), st

    # ------------------------------------------------------------------
    def elements(self, it, st, frame, node):
        res = set()
        for t in it:
            tg = tag(t)
            if tg == "list":
                res |= st.lists.get(t, EMPTY)
            elif tg == "listof":
                res |= t[1]
            elif tg == "tuple":
                for x in t[1]:
                    res |= x
            elif tg == "listdir":
                res.add(("listed", t[1]))
            elif tg == "classlist":
                res.add(("elem", t))
            elif tg == "walk":
                res.add(("tuple", (V(t[1]), V(("unknown", "dirs")), V(("listof", V(("listed", t[1])))))))
            elif tg == "spread":
                res.add(("elem", t[1]))
            elif tg == "dictlit":
                for k, _ in t[1]:
                    res.add(k)
            elif tg == "handle":
                # iterating over an open file reads it (line by line) through the handle
                if "r" in (t[2] or "") or "+" in (t[2] or ""):
                    st = self.emit("READ", "file.iter", [V(t[1])], node, st, frame, extra={"handle": t, "mode": t[2]})
                res.add(("elem", t))
            else:
                res.add(("elem", t))
        return _cap(res, self.p.loc(frame.func, node)), st

    # ------------------------------------------------------------------
    # conditions -> formulas
    # ------------------------------------------------------------------
    def cond(self, n, st, frame, out):
        if isinstance(n, ast.BoolOp):
            fs = []
            for v in n.values:
                f, st = self.cond(v, st, frame, out)
                fs.append(f)
            return (F.f_and(fs) if isinstance(n.op, ast.And) else F.f_or(fs)), st
        if isinstance(n, ast.UnaryOp) and isinstance(n.op, ast.Not):
            f, st = self.cond(n.operand, st, frame, out)
            return F.f_not(f), st
        if isinstance(n, ast.Compare) and len(n.ops) == 1:
            l, st = self.eval(n.left, st, frame, out)
            r, st = self.eval(n.comparators[0], st, frame, out)
            return self.compare(n.ops[0], l, r, st), st
        if isinstance(n, ast.Compare):
            # chained: conjunction
            fs = []
            left = n.left
            lv, st = self.eval(left, st, frame, out)
            for op, c in zip(n.ops, n.comparators):
                rv, st = self.eval(c, st, frame, out)
                fs.append(self.compare(op, lv, rv, st))
                lv = rv
            return F.f_and(fs), st
        v, st = self.eval(n, st, frame, out)
        return self.truthy(v, st), st

    def truthy(self, v, st):
        if not v:
            return ("truthy", v)
        decided = set()
        for t in v:
            tg = tag(t)
            if tg == "const":
                decided.add(bool(t[1]))
            elif tg == "bool":
                if len(v) == 1:
                    return t[1]
                decided.add(None)
            elif tg == "orelse":
                if len(v) == 1:
                    return F.f_or([self.truthy(x, st) for x in t[1]])
                decided.add(None)
            elif tg == "probe" and len(v) == 1:
                return t
            elif tg in ("join", "root", "tmpname", "sibling", "H", "inst", "obj", "tmpfile", "handle", "self"):
                decided.add(True)
            elif tg == "list":
                els = st.lists.get(t, EMPTY)
                decided.add(None)
            else:
                decided.add(None)
        if decided == {True}:
            return F.LIT_T
        if decided == {False}:
            return F.LIT_F
        return ("truthy", v)

    @staticmethod
    def maybe_none(t):
        tg = tag(t)
        if tg == "const":
            return t[1] is None
        if tg in ("join", "root", "tmpname", "sibling", "H", "cat", "content", "inst", "obj", "tmpfile",
                  "handle", "self", "list", "listof", "dictlit", "tuple", "shard", "bool", "probe",
                  "strop", "int", "parent", "name", "hashof", "dictzip", "listdir", "listed", "dictobj",
                  "func", "boundmethod", "class", "module", "excobj", "lambda"):
            return False
        return None  # unknown

    def compare(self, op, l, r, st):
        if isinstance(op, (ast.Is, ast.IsNot)):
            neg = isinstance(op, ast.IsNot)
            other = None
            if r == V(NONE):
                other = l
            elif l == V(NONE):
                other = r
            if other is not None:
                ks = {self.maybe_none(t) for t in other}
                if ks == {True}:
                    f = F.LIT_T
                elif ks == {False}:
                    f = F.LIT_F
                else:
                    f = ("isnone", other)
                return F.f_not(f) if neg else f
            if len(l) == 1 and len(r) == 1 and all(is_const(t) for t in l | r):
                res = next(iter(l))[1] is next(iter(r))[1]
                return F.LIT_T if (res != neg) else F.LIT_F
            return ("cmp", "is" if not neg else "isnot", l, r)
        if isinstance(op, (ast.Eq, ast.NotEq)):
            neg = isinstance(op, ast.NotEq)
            if all(is_const(t) for t in l | r) and l and r:
                outcomes = {a[1] == b[1] for a in l for b in r}
                if len(outcomes) == 1:
                    res = outcomes.pop()
                    return F.LIT_T if (res != neg) else F.LIT_F
            # canonical orientation
            a, b = sorted([l, r], key=lambda x: repr(sorted(x, key=repr)))
            f = ("cmp", "==", a, b)
            return F.f_not(f) if neg else f
        if isinstance(op, (ast.In, ast.NotIn)):
            neg = isinstance(op, ast.NotIn)
            # constant membership in a literal collection
            f = ("cmp", "in", l, r)
            if len(r) == 1 and l and all(is_const(t) for t in l):
                cs = self.const_elements(r, st)
                if cs is not None:
                    outs = {(a[1] in cs) for a in l}
                    if len(outs) == 1:
                        res = outs.pop()
                        return F.LIT_T if (res != neg) else F.LIT_F
            if len(r) == 1:
                rt = next(iter(r))
                if tag(rt) == "list" and all(is_const(t) for t in l) and l:
                    els = st.lists.get(rt, EMPTY)
                    if els and all(is_const(e) for e in els):
                        outs = {(a in els) for a in l}
                        if len(outs) == 1:
                            res = outs.pop()
                            return F.LIT_T if (res != neg) else F.LIT_F
            return F.f_not(f) if neg else f
        name = type(op).__name__
        if all(is_const(t) and isinstance(t[1], (int, float)) for t in l | r) and len(l) == 1 and len(r) == 1:
            a, b = next(iter(l))[1], next(iter(r))[1]
            res = {"Lt": a < b, "LtE": a <= b, "Gt": a > b, "GtE": a >= b}.get(name)
            if res is not None:
                return F.LIT_T if res else F.LIT_F
        return ("cmp", name, l, r)

    # ------------------------------------------------------------------
    # calls
    # ------------------------------------------------------------------
    def eval_args(self, n, st, frame, out):
        args = []
        for a in n.args:
            if isinstance(a, ast.Starred):
                v, st = self.eval(a.value, st, frame, out)
                tups = [t for t in v if tag(t) == "tuple"]
                if len(v) == 1 and tups:
                    args.extend(tups[0][1])           # f(*args_tuple): positional expansion
                    continue
                if tups and len({len(t[1]) for t in tups}) == 1 and len(tups) == len(v):
                    n_ = len(tups[0][1])
                    for i in range(n_):
                        u = frozenset()
                        for t in tups:
                            u |= t[1][i]
                        args.append(u)
                    continue
                args.append(frozenset(("spread", t) for t in v))
                continue
            v, st = self.eval(a, st, frame, out)
            args.append(v)
        kw = {}
        for k in n.keywords:
            v, st = self.eval(k.value, st, frame, out)
            if k.arg is None:
                # f(**d) with d a dictionary whose keys are all known strings: one keyword per key
                exp = None
                if len(v) == 1:
                    r = next(iter(v))
                    if tag(r) == "dictobj":
                        allk = st.lists.get((r, "*keys"), EMPTY)
                        if allk and all(is_const(x) and isinstance(x[1], str) for x in allk):
                            exp = {x[1]: st.lists.get((r, x), EMPTY) for x in allk}
                    elif tag(r) == "dictlit" and r[1] and all(is_const(kt) and isinstance(kt[1], str) for kt, _ in r[1]):
                        exp = {kt[1]: vv for kt, vv in r[1]}
                if exp is not None and all(exp.values()):
                    kw.update(exp)
                    continue
            kw[k.arg] = v
        return args, kw, st

    def raise_star(self, st, out):
        out.add_raise("*", st)

    def ex_Call(self, n, st, frame, out):
        fn = n.func
        text = ast.unparse(fn)
        # logging never raises, has no effect (assumption 3)
        if text.startswith("logging.") or text.startswith("self.fhs_logger.") or text == "print":
            return V(NONE), st
        if isinstance(fn, ast.Attribute) and fn.attr in LOG_METHODS and isinstance(fn.value, ast.Name) and _logger_local(fn.value):
            return V(NONE), st     # a local that only ever holds a logger
        d = self.dotted(fn, frame, st)
        if d is not None and isinstance(fn, ast.Name) and d.split(".")[-1] in self.p.classes and d.split(".")[0] == "hashstore":
            d = None  # a class of the package imported by name
        if d is not None:
            return self.call_dotted(d, n, st, frame, out)
        if isinstance(fn, ast.Name):
            return self.call_name(fn.id, n, st, frame, out)
        if isinstance(fn, ast.Attribute):
            return self.call_method(fn, n, st, frame, out)
        # call of a call result etc.
        fv, st = self.eval(fn, st, frame, out)
        args, kw, st = self.eval_args(n, st, frame, out)
        return self.call_value(fv, args, kw, n, st, frame, out)

    # --- dotted library functions ------------------------------------------
    def call_dotted(self, d, n, st, frame, out, pre=None):
        if pre is None:
            args, kw, st = self.eval_args(n, st, frame, out)
        else:
            args, kw = pre
        if d in ("pathlib.Path", "pathlib.PurePath"):
            return self.mk_path(args, st), st
        if d == "os.path.join":
            return self.mk_path(args, st), st
        if d == "os.path.dirname":
            return frozenset(parent(t) for t in args[0]), st
        if d == "os.path.basename":
            return frozenset(basename(t) for t in args[0]), st
        if d == "contextlib.closing":
            return frozenset(("closing", t) for t in args[0]), st
        if d in PR.OPEN_NAMES:
            return self.do_open(args, kw, n, st, frame, out)
        if d == "tempfile.NamedTemporaryFile":
            dirv = kw.get("dir") or (args[2] if len(args) > 2 else V(("unknown", "tmpdir")))
            chain = []
            fr = frame
            while fr is not None and fr.callnode is not None:
                chain.append(getattr(fr.callnode, "lineno", 0))
                fr = fr.parent
            site = (frame.func.qual, n.lineno, frame.ctx, tuple(chain))
            res = set()
            self.raise_star(st, out)
            for dt in dirv:
                tf = ("tmpfile", dt, site)
                res.add(tf)
            st = self.emit("CREATE", d, [frozenset(("tmpname", t[1], t[2]) for t in res)], n, st, frame,
                           extra={"delete": kw.get("delete"), "mode": "w+b",
                                  "buffering": kw.get("buffering") or (args[1] if len(args) > 1 else None)})
            return frozenset(res), st
        if d in PR.IDENTITY_PATH_FUNCS:
            # identity for the store's own addresses; on a caller-supplied path a lexical normaliser may name a
            # different file (abspath/normpath collapse `link/..`), so the result is a derived string
            lexical = d in ("os.path.abspath", "os.path.normpath", "os.path.realpath", "os.path.expanduser", "os.path.normcase")
            return frozenset(("strop", d.rsplit(".", 1)[1], t) if lexical and tag(t) in ("param", "opt") else t
                             for t in (args[0] if args else EMPTY)), st
        if d == "os.open":
            flags = ast.unparse(n.args[1]) if len(n.args) > 1 else ""
            if "O_CREAT" in flags or "O_TRUNC" in flags:
                kind, mode = "CREATE", "w"
            elif "O_WRONLY" in flags or "O_RDWR" in flags or "O_APPEND" in flags:
                kind, mode = "WRITE", "r+"
            elif "O_RDONLY" in flags:
                kind, mode = "READ", "r"
            else:
                self.problem(f"{self.p.loc(frame.func, n)}: os.open() with flags `{flags}` that do not resolve to an access kind")
                kind, mode = "READ", "r"
            self.raise_star(st, out)
            st = self.emit(kind, "os.open", [args[0]], n, st, frame, extra={"mode": flags})
            site = (frame.func.qual, n.lineno, frame.ctx)
            return frozenset(("fileno", ("handle", t, mode, site)) for t in args[0]), st
        if d in ("os.write", "os.fdopen", "os.read"):
            hs = frozenset(self._handle_of_fileno(t) for t in (args[0] if args else EMPTY))
            paths = frozenset(h[1] if tag(h) == "handle" else h for h in hs)
            if d == "os.fdopen":
                return hs, st
            self.raise_star(st, out)
            st = self.emit("WRITE" if d == "os.write" else "READ", d, [paths], n, st, frame, extra={"handle": next(iter(hs), None)})
            return V(("callres", d, n.lineno)), st
        if d in ("tempfile.mkstemp", "tempfile.mkdtemp"):
            dirv = kw.get("dir") or (args[2] if len(args) > 2 else V(("unknown", "tmpdir")))
            site = (frame.func.qual, n.lineno, frame.ctx, ())
            self.raise_star(st, out)
            names = frozenset(("tmpname", dt, site) for dt in dirv)
            st = self.emit("CREATE" if d.endswith("mkstemp") else "MKDIR", d, [names], n, st, frame)
            if d.endswith("mkstemp"):
                return V(("tuple", (frozenset(("fileno", ("handle", t, "w", site)) for t in names), names))), st
            return names, st
        if d == "os.listdir":
            self.raise_star(st, out)
            st = self.emit("PROBE", d, [args[0]], n, st, frame)
            return frozenset(("listdir", t) for t in args[0]), st
        if d == "glob.escape":
            # the same path, with its pattern characters taken literally: remembered for the glob call it is made for
            return (args[0] if args else EMPTY), st.set(done=st.done | {("globescaped", t) for t in (args[0] if args else EMPTY)})
        if d in ("glob.glob", "glob.iglob"):
            # glob(join(DIR, "*")): the entries of DIR as full paths - provided DIR was escaped; the characters of a store path
            # (or of anything else that is not a constant) are otherwise read as a pattern
            res, dirs, plain = set(), set(), True
            for t in (args[0] if args else EMPTY):
                if tag(t) == "join" and len(t[1]) >= 2 and is_const(t[1][-1]) and t[1][-1][1] in ("*", "**"):
                    dt = J(list(t[1][:-1])) if len(t[1]) > 2 else t[1][0]
                    dirs.add(dt)
                    res.add(J([dt, ("listed", dt)]))
                else:
                    plain = False
                    res.add(("listed", t))
            esc = plain and all(("globescaped", dt) in st.done or is_const(dt) for dt in dirs)
            st = self.emit("PROBE", "os.listdir", [frozenset(dirs) or (args[0] if args else EMPTY)], n, st, frame, extra={"glob": True, "escaped": esc})
            return V(("listof", frozenset(res))), st
        if d == "os.scandir":
            # the directory's entries as DirEntry objects (name / path / is_file()); also usable as a context manager
            self.raise_star(st, out)
            st = self.emit("PROBE", "os.listdir", [args[0]], n, st, frame)
            return V(("listof", frozenset(("direntry", t) for t in args[0]))), st
        if d == "os.walk":
            st = self.emit("PROBE", d, [args[0]], n, st, frame)
            return frozenset(("walk", t) for t in args[0]), st
        if d == "os.getenv":
            return V(("getenv", tuple(sorted(args[0], key=repr)))), st
        if d == "atexit.register":
            return V(NONE), st
        spec = PR.PRIMS.get(d)
        if spec is not None:
            kind, pidx, raises = spec
            paths = [args[i] if i < len(args) else EMPTY for i in pidx]
            if d in ("fcntl.flock", "fcntl.lockf", "os.posix_fallocate", "os.ftruncate", "os.fsync", "os.write", "os.close"):
                paths = [frozenset(self._handle_of_fileno(t) for t in args[0])]
            if kind == "REMOVE" and paths:
                # pending / tmps record that a removal was *attempted*; whether the removal
                # itself fails is a fault-path matter (C13), not a bookkeeping one (C05)
                st = st.set(pending=st.pending - paths[0], tmps=st.tmps - paths[0])
            if raises and kind in ("CREATE", "WRITE", "RENAME", "REMOVE", "MKDIR"):
                # a mutation that fails may have happened in part (a cross-device move copies first; a creation may have
                # made the name): on the exceptional edge the file system is in a NEW epoch - what was probed before the
                # attempt is no longer known
                st_after = self.emit(kind, d, paths, n, st, frame)
                self.raise_star(st.set(muts=st_after.muts), out)
                st = st_after
            else:
                if raises:
                    self.raise_star(st, out)
                st = self.emit(kind, d, paths, n, st, frame)
            if d == "fcntl.flock":
                # the advisory lock lives on the open file description until that handle is closed
                st = st.set(done=st.done | {("flocked", h) for h in paths[0] if tag(h) == "handle"})
            if kind == "PROBE":
                if d in ("os.path.isfile", "os.path.exists", "os.path.isdir"):
                    return V(("probe", d.rsplit(".", 1)[1], paths[0], st.muts)), st
                return V(("probe", d.rsplit(".", 1)[1], paths[0], st.muts)), st
            return V(NONE), st
        mod = d.split(".")[0]
        if mod in PR.GUARDED_MODULES:
            self.problem(f"{self.p.loc(frame.func, n)}: call to {d} is not in the primitive table "
                         f"(new kind of file access must be classified)")
            self.raise_star(st, out)
            return V(("callres", d, n.lineno)), st
        # other library calls (hashlib, yaml, inspect, threading, multiprocessing, importlib, ...)
        if d == "hashlib.new":
            self.raise_star(st, out)
            self.events.append(self._mk_other("HASHNEW", d, [args[0] if args else EMPTY], n, st, frame))
            return frozenset(("hashobj", t) for t in (args[0] if args else V(("unknown", "alg")))), st
        if d.startswith("yaml."):
            self.raise_star(st, out)
            return V(("yaml", d, tuple(sorted((args[0] if args else EMPTY), key=repr)))), st
        if d.startswith(("threading.", "multiprocessing.", "logging.", "inspect.", "datetime.", "functools.", "itertools.", "operator.", "typing.", "collections.")):
            return V(("callres", d, n.lineno)), st
        self.unresolved[d] = self.unresolved.get(d, 0) + 1
        self.raise_star(st, out)
        return V(("callres", d, n.lineno)), st

    @staticmethod
    def _handle_of_fileno(t):
        if tag(t) == "fileno":
            h = t[1]
            if tag(h) == "tmpfile":
                return ("tmpname", h[1], h[2])     # the named temp file the descriptor belongs to
            return h
        return t

    def _mk_other(self, kind, prim, paths, n, st, frame):
        from .state import Event
        return Event(kind=kind, prim=prim, paths=paths, classes=[frozenset() for _ in paths], func=frame.func,
                     node=n, line=n.lineno, ctx=frame.ctx, entry=self.entry, mode=self.mode,
                     held_must=st.held_must, held_may=st.held_may, facts=st.facts, done=st.done,
                     probes=st.probes, gone=st.gone, handling=st.handling,
                     uid=(frame.func.qual, n.lineno, n.col_offset, frame.ctx, st.handling), extra={})

    def mk_path(self, args, st):
        if not args:
            return V(("unknown", "emptypath"))
        combos = [[]]
        for a in args:
            if len(a) * len(combos) > MAXSET:
                raise AnalysisError("path combination explosion")
            combos = [c + [t] for c in combos for t in (a or V(("unknown", "emptyarg")))]
        res = set()
        for c in combos:
            parts = []
            for t in c:
                if tag(t) == "spread":
                    inner = t[1]
                    if tag(inner) == "tuple":
                        for x in inner[1]:
                            parts.append(next(iter(x)) if len(x) == 1 else ("alt", tuple(sorted(x, key=repr))))
                    else:
                        parts.append(("spread", inner))
                else:
                    parts.append(t)
            res.add(J(parts) if len(parts) > 1 or tag(parts[0]) == "spread" else parts[0])
        return frozenset(res)

    def do_open(self, args, kw, n, st, frame, out):
        path = args[0] if args else kw.get("file", EMPTY)
        modev = args[1] if len(args) > 1 else kw.get("mode", V(C("r")))
        site = (frame.func.qual, n.lineno, frame.ctx)
        res = set()
        self.raise_star(st, out)
        for m in modev:
            if not is_const(m) or not isinstance(m[1], str):
                self.problem(f"{self.p.loc(frame.func, n)}: open() with a mode that does not resolve to a literal")
                continue
            kind = PR.open_kind(m[1])
            if kind is None:
                self.problem(f"{self.p.loc(frame.func, n)}: open() mode {m[1]!r} not classified")
                continue
            st = self.emit(kind, "open", [path], n, st, frame,
                           extra={"mode": m[1], "buffering": kw.get("buffering") or (args[2] if len(args) > 2 else None),
                                  "encoding": kw.get("encoding") or (args[3] if len(args) > 3 else None)})
            for p_ in path:
                res.add(("handle", p_, m[1], site))
        return frozenset(res), st

    # --- plain names -----------------------------------------------------
    def call_name(self, name, n, st, frame, out):
        if name in frame.localfuncs and name not in st.env:
            args, kw, st = self.eval_args(n, st, frame, out)
            return self.inline(frame.localfuncs[name], args, kw, st, frame, n, out, closure=True)
        if name in st.env and any(tag(t) in ("func", "boundmethod", "lambda") for t in st.env[name]):
            # a local that holds functions / bound methods (picked from a table, passed as an argument): every one it may hold
            args, kw, st = self.eval_args(n, st, frame, out)
            return self.call_value(st.env[name], args, kw, n, st, frame, out)
        if name in self.p.classes:
            args, kw, st = self.eval_args(n, st, frame, out)
            return self.construct(name, args, kw, n, st, frame, out)
        if name in st.env and st.env[name] and all(tag(t) == "class" for t in st.env[name]):
            args, kw, st = self.eval_args(n, st, frame, out)
            return self.call_value(st.env[name], args, kw, n, st, frame, out)
        if name in self.p.funcs and "." not in name:
            args, kw, st = self.eval_args(n, st, frame, out)
            return self.inline(self.p.funcs[name], args, kw, st, frame, n, out)
        args, kw, st = self.eval_args(n, st, frame, out)
        if name == "open":
            return self.do_open(args, kw, n, st, frame, out)
        if name == "str":
            return (args[0] if args else V(C(""))), st
        if name == "bool":
            return V(("bool", self.truthy(args[0], st))) if args else V(FALSE), st
        if name == "int":
            self.raise_star(st, out)
            return frozenset(("int", t) if not (is_const(t) and isinstance(t[1], int)) else t for t in args[0]), st
        if name == "isinstance":
            if len(n.args) > 1 and isinstance(n.args[1], ast.Tuple) and n.args[1].elts:
                # isinstance(x, (A, B)): the disjunction of the single tests
                return V(("bool", F.f_or([("isinstance", args[0], ast.unparse(e)) for e in n.args[1].elts]))), st
            tn = ast.unparse(n.args[1]) if len(n.args) > 1 else "?"
            return V(("bool", ("isinstance", args[0], tn))), st
        if name == "hasattr":
            # a path never has file methods, an open handle always has
            if len(args) > 1 and args[0] and all(is_const(a) and a[1] in ("read", "write", "seek", "tell", "close", "readline") for a in args[1]):
                kinds = {("path" if (is_rooted(t) or tag(t) in ("join", "sibling", "parent", "tmpname", "abspath")) else
                          "handle" if tag(t) in ("handle", "tmpfile") else "?") for t in args[0]}
                if kinds == {"path"}:
                    return V(FALSE), st
                if kinds == {"handle"}:
                    return V(TRUE), st
            return V(("bool", ("hasattr", args[0], args[1] if len(args) > 1 else EMPTY))), st
        if name == "getattr":
            res = set()
            for r in args[0]:
                for a in (args[1] if len(args) > 1 else EMPTY):
                    if is_const(a) and isinstance(a[1], str):
                        res |= self.getattr_term(r, a[1], st, frame, n)
                    else:
                        res.add(("iattr", r, a))
            return frozenset(res), st
        if name in ("list", "set", "tuple", "sorted", "frozenset"):
            if not args:
                lid = ("list", (frame.func.qual, n.lineno, n.col_offset, frame.ctx))
                ls = dict(st.lists)
                ls[lid] = EMPTY
                return V(lid), st.set(lists=ls)
            el, st = self.elements(args[0], st, frame, n)
            if name in ("list", "set"):
                # a fresh mutable container: tracked, so that later append/add are seen
                lid = ("list", (frame.func.qual, n.lineno, n.col_offset, frame.ctx))
                ls = dict(st.lists)
                ls[lid] = el
                return V(lid), st.set(lists=ls)
            return V(("listof", el)), st
        if name == "dict":
            if args and len(args[0]) == 1 and tag(next(iter(args[0]))) == "zip":
                z = next(iter(args[0]))
                ka, st = self.elements(z[1], st, frame, n)
                return V(("dictzip", z[1], z[2], ka)), st
            if not args and not kw:
                return V(("dictobj", (frame.func.qual, n.lineno, n.col_offset, frame.ctx))), st
            return V(("callres", "dict", n.lineno)), st
        if name == "zip":
            return V(("zip", args[0] if args else EMPTY, args[1] if len(args) > 1 else EMPTY)), st
        if name in ("any", "all"):
            a0 = args[0] if args else EMPTY
            if len(a0) == 1 and tag(next(iter(a0))) == "tuple" and next(iter(a0))[1]:
                # all((a, b, c)) / any([a, b]) over a literal collection: the conjunction / disjunction of the members' truth values
                parts = [self.truthy(x, st) for x in next(iter(a0))[1]]
                return V(("bool", F.f_and(parts) if name == "all" else F.f_or(parts))), st
            return V(("bool", (name, a0))), st
        if name in ("len", "type", "range", "repr", "enumerate", "iter"):
            return V(("callres", name, tuple(sorted((args[0] if args else EMPTY), key=repr)))), st
        if name == "bytes":
            return (args[0] if args else V(C(b""))), st
        if name in self.p.exc_classes:
            return V(("excobj", name)), st
        import builtins as _b
        bt = getattr(_b, name, None)
        if isinstance(bt, type) and issubclass(bt, BaseException):
            return V(("excobj", name)), st
        imp = frame.func.module.imports.get(name)
        if imp:
            return self._call_imported(imp, args, kw, n, st, frame, out)
        self.unresolved[name] = self.unresolved.get(name, 0) + 1
        self.raise_star(st, out)
        return V(("callres", name, n.lineno)), st

    def _call_imported(self, d, args, kw, n, st, frame, out):
        # re-dispatch with already evaluated arguments
        return self.call_dotted(d, n, st, frame, out, pre=(args, kw))

    # --- constructors ----------------------------------------------------
    def construct(self, cls, args, kw, n, st, frame, out):
        if cls in self.p.exc_classes:
            return V(("excobj", cls)), st
        fields = self.p.dataclass_fields(cls)
        if fields is not None:
            vals = {}
            for i, a in enumerate(args):
                if i < len(fields):
                    vals[fields[i]] = a
            for k, v in kw.items():
                vals[k] = v
            return V(("obj", cls, tuple((f, vals.get(f, V(("unknown", f)))) for f in fields))), st
        inst = ("inst", cls, (frame.func.qual, n.lineno, n.col_offset, frame.ctx))
        init = self.p.method(cls, "__init__")
        self.calls.append({"callee": f"{cls}.__init__" if init else cls, "node": n, "ctx": frame.ctx, "func": frame.func,
                           "state": st, "args": args, "kw": kw, "entry": self.entry, "mode": self.mode})
        if cls == "FileHashStore":
            # constructing the store from the client: not inlined (own entry point)
            return V(("self", "FileHashStore")), st
        if init is not None:
            _, st2 = self.inline(init, [V(inst)] + list(args), kw, st, frame, n, out)
            if st2 is None:
                raise self._abort()
            st = st2
        return V(inst), st

    def _abort(self):
        return Abort()

    # --- methods -----------------------------------------------------------
    def call_method(self, fn, n, st, frame, out):
        recv, st = self.eval(fn.value, st, frame, out)
        args, kw, st = self.eval_args(n, st, frame, out)
        return self.call_on(recv, fn.attr, args, kw, n, st, frame, out)

    def _mut_prim(self, kind, name, paths, n, st, frame, out, extra=None):
        """a raising, state-changing primitive spelled as a pathlib method: the same transfer as the os.* spelling (a removal that was
        attempted settles the bookkeeping; on the exceptional edge the file system is in a new epoch)"""
        if kind == "REMOVE" and paths:
            st = st.set(pending=st.pending - paths[0], tmps=st.tmps - paths[0])
        st_after = self.emit(kind, name, paths, n, st, frame, extra=extra)
        self.raise_star(st.set(muts=st_after.muts), out)
        return st_after

    @staticmethod
    def _missing_ok(kw):
        v = (kw or {}).get("missing_ok")
        return {"missing_ok": True} if v and all(is_const(t) and t[1] is True for t in v) else None

    def _pathish(self, r):
        return is_rooted(r) or tag(r) in ("join", "sibling", "parent", "tmpname")

    def call_on(self, recv, meth, args, kw, n, st, frame, out):
        if len(recv) > 1 and meth in ("exists", "is_file", "is_dir", "stat", "lstat", "unlink", "mkdir", "rename", "replace", "touch") \
                and all(self._pathish(r) for r in recv):
            # one primitive on "whichever of these candidates the path is" - one event carrying the whole candidate set, as the os.* form gives
            # (an overloaded look-up hands back the README address and its fall-back candidates together)
            if meth in ("exists", "is_file", "is_dir"):
                st = self.emit("PROBE", "Path." + meth, [recv], n, st, frame)
                return V(("probe", meth, recv, st.muts)), st
            if meth in ("stat", "lstat"):
                self.raise_star(st, out)
                st = self.emit("PROBE", "os.stat", [recv], n, st, frame)
                return V(("probe", "stat", recv, st.muts)), st
            if meth == "unlink":
                return V(NONE), self._mut_prim("REMOVE", "Path.unlink", [recv], n, st, frame, out, extra=self._missing_ok(kw))
            if meth == "mkdir":
                return V(NONE), self._mut_prim("MKDIR", "Path.mkdir", [recv], n, st, frame, out)
            if meth in ("rename", "replace") and args:
                return V(NONE), self._mut_prim("RENAME", "Path." + meth, [recv, args[0]], n, st, frame, out)
            if meth == "touch":
                return V(NONE), self._mut_prim("CREATE", "Path.touch", [recv], n, st, frame, out, extra={"mode": "w"})
        results = set()
        cur = None
        any_normal = False
        for r in sorted(recv, key=repr):
            v, s2 = self.call_on_term(r, meth, args, kw, n, st, frame, out)
            if s2 is not None:
                any_normal = True
                results |= v
                cur = join(cur, s2)
        if not any_normal:
            raise self._abort()
        return _cap(results, self.p.loc(frame.func, n)), cur

    def call_on_term(self, r, meth, args, kw, n, st, frame, out):
        tg = tag(r)
        if tg == "direntry" and meth in ("is_file", "is_dir", "exists"):
            pth = V(J([r[1], ("listed", r[1])]))
            st = self.emit("PROBE", "Path." + meth, [pth], n, st, frame)
            return V(("probe", meth, pth, st.muts)), st
        if tg == "obj" and meth == "_asdict" and self.p.is_namedtuple(r[1]):
            return V(("dictlit", tuple((C(f), vv) for f, vv in r[2]))), st
        if tg == "self" and r[1] == "FileHashStore" and frame.func.cls != "FileHashStore":
            return self.api_call(meth, args, kw, n, st, frame, out)
        if tg in ("self", "inst", "class"):
            cls = r[1]
            f = self.p.method(cls, meth)
            if f is not None:
                if f.is_class:
                    # classmethod: the class itself is the first argument
                    return self.inline(f, [V(("class", cls))] + list(args), kw, st, frame, n, out)
                if tg == "class" or f.is_static:
                    return self.inline(f, args, kw, st, frame, n, out, selfterm=r if tg != "class" else None)
                return self.inline(f, [V(r)] + list(args), kw, st, frame, n, out, selfterm=r)
            # attribute holding a callable / logger
            av = self.getattr_term(r, meth, st, frame, n)
            return self.call_value(av, args, kw, n, st, frame, out)
        if tg == "module":
            return self._call_imported(f"{r[1]}.{meth}", args, kw, n, st, frame, out)
        if tg == "tmpfile" and meth == "fileno":
            return V(("fileno", r)), st
        if tg == "handle":
            spec = PR.HANDLE_METHODS.get(meth)
            if spec is None:
                self.problem(f"{self.p.loc(frame.func, n)}: file method .{meth}() not in the primitive table")
                return V(("callres", meth, n.lineno)), st
            kind, raises = spec
            if raises:
                self.raise_star(st, out)
            if meth == "fileno":
                return V(("fileno", r)), st
            if kind in ("READ", "WRITE", "CLOSE"):
                st = self.emit(kind, "file." + meth, [V(r[1])] + [a for a in args[:1]], n, st, frame,
                               extra={"handle": r, "mode": r[2]})
                if kind == "CLOSE":
                    st = st.set(done=(st.done - {("flocked", r)}) | {("closed", r[1])})
            else:
                st = self.emit("HANDLEOP", "file." + meth, [V(r[1])], n, st, frame, extra={"handle": r, "mode": r[2], "args": list(args)})
            if meth == "read":
                return V(("content", r[1])), st
            if meth in ("readlines", "readline"):
                return V(("listof", V(("line", r[1])))), st
            return V(NONE), st
        if tg == "list":
            if meth in ("append", "add"):
                ls = dict(st.lists)
                ls[r] = ls.get(r, EMPTY) | (args[0] if args else EMPTY)
                return V(NONE), st.set(lists=ls)
            if meth == "extend":
                el, st = self.elements(args[0], st, frame, n)
                ls = dict(st.lists)
                ls[r] = ls.get(r, EMPTY) | el
                return V(NONE), st.set(lists=ls)
            if meth in ("remove", "pop", "clear", "sort", "reverse", "insert"):
                return V(NONE), st
        if tg == "dictlit" and meth in ("items", "keys", "values") and not args:
            if meth == "items":
                return V(("tuple", tuple(V(("tuple", (V(k), vv))) for k, vv in r[1]))), st
            if meth == "keys":
                return V(("tuple", tuple(V(k) for k, vv in r[1]))), st
            return V(("tuple", tuple(vv for k, vv in r[1]))), st
        if tg == "yaml" and meth == "get" and self.assume is not None and args and self.assume(("cmp", "in", args[0], V(r))) is False:
            return (args[1] if len(args) > 1 else V(NONE)), st
        if tg in ("dictlit", "dictobj", "dictzip", "item", "yaml") and meth == "get":
            v = self.getitem(V(r), args[0], st, n)
            # .get never raises; absent key -> None/default
            dflt = args[1] if len(args) > 1 else V(NONE)
            if tg == "dictlit" and all(tag(x) != "item" for x in v):
                return v, st
            if tg == "dictlit" and all(is_const(k) for k, _ in r[1]):
                # a table with constant keys: a constant key that is not in it gives the default, an unknown key any row or the default
                res = set()
                for k in args[0]:
                    if is_const(k):
                        hit = [vv for kt, vv in r[1] if kt == k]
                        res |= hit[0] if hit else dflt
                    else:
                        for _kt, vv in r[1]:
                            res |= vv
                        res |= dflt
                return frozenset(res), st
            return v, st
        if meth == "with_name" or is_rooted(r) or tg in ("join", "sibling", "parent", "tmpname") \
                or (tg in ("param", "iattr", "item", "strop") and meth in ("read_text", "read_bytes", "write_text", "write_bytes", "mkdir", "unlink",
                                                                            "is_file", "is_dir", "iterdir", "glob", "rglob", "touch", "rename", "relative_to")):
            # pathlib methods on a path term
            if meth == "with_name":
                # the new name keeps only its shape: which path its stem/suffix came from is
                # irrelevant to the class of the sibling (and would square the value set)
                def shape(a):
                    if tag(a) in ("stem", "suffix"):
                        return (tag(a), ("unknown", "p"))
                    if tag(a) == "cat":
                        return cat([shape(x) for x in a[1]])
                    return a
                return frozenset(("sibling", r, shape(a)) for a in args[0]), st
            if meth == "mkdir":
                return V(NONE), self._mut_prim("MKDIR", "Path.mkdir", [V(r)], n, st, frame, out)
            if meth in ("exists", "is_file", "is_dir"):
                st = self.emit("PROBE", "Path." + meth, [V(r)], n, st, frame)
                return V(("probe", meth, V(r), st.muts)), st
            if meth in ("glob", "rglob", "iterdir"):
                # the directory's entries as full paths
                self.raise_star(st, out)
                st = self.emit("PROBE", "os.listdir", [V(r)], n, st, frame)
                return V(("listof", V(J([r, ("listed", r)])))), st
            if meth in ("stat", "lstat"):
                # Path.stat() is os.stat(self): raises for a missing file, the result's st_size is os.path.getsize
                self.raise_star(st, out)
                st = self.emit("PROBE", "os.stat", [V(r)], n, st, frame)
                return V(("probe", "stat", V(r), st.muts)), st
            if meth in ("unlink",):
                return V(NONE), self._mut_prim("REMOVE", "Path.unlink", [V(r)], n, st, frame, out, extra=self._missing_ok(kw))
            if meth in ("rename", "replace"):
                return V(NONE), self._mut_prim("RENAME", "Path." + meth, [V(r), args[0]], n, st, frame, out)
            if meth == "open":
                return self.do_open([V(r)] + args, kw, n, st, frame, out)
            if meth in ("write_text", "write_bytes", "touch"):
                return V(NONE), self._mut_prim("CREATE", "Path." + meth, [V(r)], n, st, frame, out, extra={"mode": "w"})
            if meth in ("read_text", "read_bytes"):
                self.raise_star(st, out)
                return V(("content", r)), self.emit("READ", "Path." + meth, [V(r)], n, st, frame, extra={"mode": "r"})
            if meth == "relative_to":
                # a PATH OBJECT for the part of r below the argument (not a string: it never equals a str)
                return frozenset(("relto", r, a) for a in (args[0] if args else EMPTY)), st
            if meth in ("as_posix", "resolve", "absolute", "__str__", "__fspath__"):
                return V(r), st
            if meth in ("joinpath",):
                return self.mk_path([V(r)] + args, st), st
            if meth in ("lower", "strip", "upper", "replace"):
                return V(("strop", meth, r)), st
            if meth in ("tell", "seek", "read", "close", "readline", "readlines", "write", "fileno", "flush", "strip", "encode", "decode"):
                # a file/str method on something that is a path on this abstract path: an
                # infeasible branch of an `hasattr(obj, "read")`-style dispatch; it would raise
                self.raise_star(st, out)
                return V(("callres", meth, n.lineno)), st
            self.problem(f"{self.p.loc(frame.func, n)}: pathlib method .{meth}() on a store path is not in the primitive table")
            return V(("callres", meth, n.lineno)), st
        if meth in ("lower", "upper", "strip", "replace", "rstrip", "lstrip"):
            return V(("strop", meth, r)), st
        if tg == "hashobj":
            if meth == "update":
                self.events.append(self._mk_other("HASHUPDATE", "hash.update", [args[0] if args else EMPTY], n, st, frame))
                return V(NONE), st
            if meth == "hexdigest":
                return V(("hexdigest", r[1])), st
        if tg == "boundmethod":
            pass
        if meth == "parse_args":
            return V(("argsns",)), st
        if meth == "add_argument":
            return V(NONE), st
        if tg == "selfattr" or tg == "iattr":
            # client: self.hashstore.<api>() / hashstore_c.hashstore.<api>()
            name = r[1] if tg == "selfattr" else r[2]
            if name == "hashstore":
                return self.api_call(meth, args, kw, n, st, frame, out)
        if meth in NONRAISING_METHODS:
            return V(("callres", meth, (tuple(sorted((r,), key=repr)), tuple(tuple(sorted(a, key=repr)) for a in args)))), st
        self.unresolved[f".{meth}()"] = self.unresolved.get(f".{meth}()", 0) + 1
        self.raise_star(st, out)
        return V(("callres", meth, n.lineno)), st

    def api_call(self, meth, args, kw, n, st, frame, out):
        f = self.p.method("FileHashStore", meth)
        self.calls.append({"callee": f"FileHashStore.{meth}", "node": n, "ctx": frame.ctx, "func": frame.func,
                           "state": st, "args": args, "kw": kw, "entry": self.entry, "mode": self.mode, "api": True})
        if f is None or not self.inline_api:
            self.raise_star(st, out)
            return V(("callres", "api." + meth, n.lineno)), st
        return self.inline(f, [V(("self", "FileHashStore"))] + list(args), kw, st, frame, n, out,
                           selfterm=("self", "FileHashStore"))

    def call_value(self, fv, args, kw, n, st, frame, out):
        res = set()
        cur = None
        for t in fv:
            tg = tag(t)
            if t == NONE:
                # calling None: TypeError, no normal continuation from this alternative
                self.raise_star(st, out)
                continue
            if tg == "func":
                f = self.p.funcs.get(t[1])
                if f is not None:
                    v, s2 = self.inline(f, args, kw, st, frame, n, out, closure=True)
                    if s2 is not None:
                        res |= v
                        cur = join(cur, s2)
                    continue
            if tg == "boundmethod":
                v, s2 = self.call_on_term(t[1], t[2], args, kw, n, st, frame, out)
                if s2 is not None:
                    res |= v
                    cur = join(cur, s2)
                continue
            if tg == "lambda" and t in self.lambdas:
                ln, lframe, lenv = self.lambdas[t]
                env2 = dict(lenv)
                for i_, pa in enumerate(ln.args.args):
                    if i_ < len(args):
                        env2[pa.arg] = args[i_]
                    elif pa.arg in kw:
                        env2[pa.arg] = kw[pa.arg]
                try:
                    v, s2 = self.eval(ln.body, st.set(env=env2), lframe, out)
                except Abort:
                    continue
                res |= v
                cur = join(cur, s2.set(env=st.env))
                continue
            if tg == "class":
                v, s2 = self.construct(t[1], args, kw, n, st, frame, out)
                res |= v
                cur = join(cur, s2)
                continue
            self.unresolved[ast.unparse(n.func)] = self.unresolved.get(ast.unparse(n.func), 0) + 1
            self.raise_star(st, out)
            res.add(("callres", ast.unparse(n.func), n.lineno))
            cur = join(cur, st)
        if cur is None:
            raise self._abort()
        return frozenset(res), cur

    # ------------------------------------------------------------------
    # inlining
    # ------------------------------------------------------------------
    def inline(self, f, args, kw, st, frame, node, out, selfterm=None, closure=False):
        """returns (return values, state after normal return or None)"""
        qual = f.qual
        if qual in self.INTRINSICS:
            # the summaries read their arguments by position: bind keyword arguments by the callee's signature first
            plist = [x.arg for x in f.node.args.posonlyargs + f.node.args.args]
            if plist and plist[0] in ("self", "cls") and not (args and any(tag(t) == "self" for t in args[0])):
                plist = plist[1:]
            args, kw = list(args), dict(kw)
            while len(args) < len(plist) and plist[len(args)] in kw:
                args.append(kw.pop(plist[len(args)]))
            return self.intrinsic(f, args, kw, st, frame, node, out)
        if frame.depth + 1 > DEPTH_BOUND:
            raise AnalysisError(f"call chain deeper than {DEPTH_BOUND} at {self.p.loc(frame.func, node)}: {' > '.join(frame.ctx)}")
        if qual in frame.ctx and not closure:
            raise AnalysisError(f"recursion through {qual} at {self.p.loc(frame.func, node)} — inlining is not defined")
        # bind parameters
        a = f.node.args
        params = [x.arg for x in a.posonlyargs + a.args]
        env = {}
        if closure:
            # closures read the enclosing frame: its current locals when called from there, the locals it had when the function
            # was handed on as a value (snapshot) when called from somewhere else (an `action` argument of a helper)
            snap = self.closure_env.get(qual)
            if snap is not None and f.parent is not None and frame.func is not f.parent and frame.func.parent is not f.parent:
                env.update(snap)
            else:
                env.update(st.env)
        pos = list(args)
        defaults = list(a.defaults)
        ndef = len(defaults)
        for i, pn in enumerate(params):
            if i < len(pos):
                env[pn] = self._al(pos[i])
            elif pn in kw:
                env[pn] = self._al(kw[pn])
            else:
                di = i - (len(params) - ndef)
                if 0 <= di < ndef:
                    dv = defaults[di]
                    env[pn] = V(C(dv.value)) if isinstance(dv, ast.Constant) else V(("unknown", "default"))
                else:
                    env[pn] = V(("unknown", f"missing:{pn}"))
        for x, dv in zip(a.kwonlyargs, a.kw_defaults):
            if x.arg in kw:
                env[x.arg] = kw[x.arg]
            elif dv is not None:
                env[x.arg] = V(C(dv.value)) if isinstance(dv, ast.Constant) else V(("unknown", "default"))
        if a.vararg:
            env[a.vararg.arg] = V(("tuple", tuple(pos[len(params):])))
        if a.kwarg:
            env[a.kwarg.arg] = V(("unknown", "kwargs"))
        argmap = {k: v for k, v in env.items() if k in params}
        callrec = {"callee": qual, "node": node, "ctx": frame.ctx, "func": frame.func, "state": st,
                   "args": args, "kw": kw, "argmap": argmap, "entry": self.entry, "mode": self.mode, "ret": None,
                   "after": None}
        self.calls.append(callrec)
        self.stats["calls_inlined"] += 1
        argterms = set()
        for v in env.values():
            argterms |= v
        nf = type(frame)(f, frame.ctx + (qual,), selfterm or frame.selfterm, frame.depth + 1,
                         parent=frame, callnode=node, argterms=frozenset(argterms))
        if self._pending_on_yield is not None and getattr(f, "is_ctxmgr", False):
            nf.on_yield = self._pending_on_yield
            self._pending_on_yield = None
        self.stats["max_depth"] = max(self.stats["max_depth"], nf.depth)
        caller_env = st.env
        # ("entered", f): the call was at least begun on this path (its own failure then explains what it did not achieve)
        o = self.call_body(f, st.set(env=env, done=st.done | {("entered", qual)}), nf)
        for l, s in o.raises.items():
            out.add_raise(l, s.set(env=caller_env))
        callrec["raises"] = sorted(o.raises, key=str)
        callrec["raise_states"] = {l: o.raise_states(l) for l in o.raises}
        if o.ret is None:
            return EMPTY, None
        callrec["ret"] = o.retval
        if closure and f.parent is not None:
            # names the nested function declares `nonlocal`: its assignments are visible to the enclosing function and to the
            # sibling closures (which may run later, from somewhere else, with the locals remembered for them)
            nl = {nm for x in ast.walk(f.node) if isinstance(x, ast.Nonlocal) for nm in x.names}
            for nm in nl:
                if nm in o.ret.env:
                    val = o.ret.env[nm]
                    if frame.func is f.parent:
                        caller_env = dict(caller_env)
                        caller_env[nm] = val
                    for q2, snap2 in self.closure_env.items():
                        g2 = self.p.funcs.get(q2)
                        if g2 is not None and g2.parent is f.parent:
                            snap2[nm] = val
        after = o.ret.set(env=caller_env)
        callrec["after"] = after
        dn = set(after.done)
        dn.add(("call", qual))
        for pn, v in argmap.items():
            for t in v:
                if tag(t) in ("param", "opt"):
                    dn.add(("argof", qual, pn, t))
                elif tag(t) == "strop" and tag(t[2]) == "param":
                    dn.add(("argof", qual, pn, t[2]))
        after = after.set(done=frozenset(dn))
        parts = o.ret_parts()
        if len(parts) == 2:
            extra = frozenset(dn) - o.ret.done
            self._partition = (node, [(ps.set(env=caller_env, done=ps.done | extra), pv) for ps, pv in parts])
        else:
            self._partition = None
        return o.retval, after

    def _al(self, v):
        if self.alias:
            from .terms import substitute
            return frozenset(substitute(t, self.alias) for t in v)
        return v

    def intrinsic(self, f, args, kw, st, frame, node, out):
        q = f.qual
        self.calls.append({"callee": q, "node": node, "ctx": frame.ctx, "func": frame.func, "state": st,
                           "args": args, "kw": kw, "argmap": {}, "entry": self.entry, "mode": self.mode})
        if q == "FileHashStore._computehash":
            a = args[1:] if args and any(tag(t) == "self" for t in args[0]) else args
            x = a[0] if a else kw.get("stream", EMPTY)
            alg = a[1] if len(a) > 1 else kw.get("algorithm")
            self.raise_star(st, out)
            res = set()
            algs = [None] if alg is None else sorted(alg, key=repr)
            for t in x:
                for al in algs:
                    if al is not None and (al == NONE or al == ("selfattr", "algorithm")):
                        al = None
                    if tag(t) in ("handle", "inst"):
                        res.add(("hashof", t, al))
                    else:
                        res.add(("H", t, al))
            self.events.append(self._mk_other("HASH", "_computehash", [x], node, st, frame))
            st = st.set(done=st.done | {("call", q)})
            return frozenset(res), st
        if q == "FileHashStore._shard":
            a = args[1:] if args and any(tag(t) == "self" for t in args[0]) else args
            x = a[0] if a else EMPTY
            # slicing a string does not raise (a non-string digest is a type error, out of scope)
            return frozenset(("shard", t) for t in x), st
        if q == "FileHashStore._cast_to_bytes":
            a = args[1:] if args and any(tag(t) == "self" for t in args[0]) else args
            return (a[0] if a else EMPTY), st
        if q == "HashStoreFactory.get_hashstore":
            self.raise_star(st, out)
            return V(("self", "FileHashStore")), st
        raise AnalysisError(f"intrinsic {q} not modelled")
