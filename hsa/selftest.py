"""Self-test of the checker (DESIGN §6): seeded variants of the *current* source, analysed
in memory, must each be reported by the intended rule; behaviour-preserving twins must stay
silent.  Filled in by hsa/variants.py; see run_selftest."""

from __future__ import annotations


def run_selftest(prop, A):
    try:
        from .variants import sweep
    except ImportError:
        return {"variants": 0, "caught": 0, "twins": 0, "silent": 0, "missed": [], "note": "variant sweep not built yet"}
    out = sweep(prop, A)
    from .variants import replay_seeded
    rs = replay_seeded(prop, A)
    out["seeded_replayed"] = rs["replayed"]
    out["seeded_reported"] = rs["reported"]
    out["seeded_not_applicable"] = rs["not_applicable"]
    out["missed"] = list(out.get("missed", [])) + rs["missed"]
    from .variants import replay_benign
    rb = replay_benign(prop, A)
    out["refactorings_replayed"] = rb["replayed"]
    out["refactorings_silent"] = rb["silent"]
    out["refactorings_not_applicable"] = rb["not_applicable"]
    out["missed"] += rb["missed"]
    return out


def run_canary(prop, A):
    """quick tier: one seeded variant of the current source (the first one of the property that applies) must be
    reported by its rule - a positive example on every run, so that a rule that has gone blind cannot pass quietly"""
    from .variants import VARIANTS, _run_one
    from .loader import read_sources
    base = read_sources(A.p.root)
    for i, (p, expect, name, edit) in enumerate(VARIANTS):
        if p != prop or expect is None:
            continue
        try:
            src = edit(base)
        except SyntaxError:
            src = None
        if src is None:
            continue
        idx, found, problems, floors, err = _run_one((p, expect, name, i, src))
        ok = expect in found or bool(err) or bool(problems) or bool(floors)
        return {"canary": name, "expected": expect, "reported": found, "ok": ok,
                "missed": [] if ok else [f"canary variant `{name}` should be reported by {expect}; reported: {found or 'nothing'}"]}
    return {"canary": None, "ok": True, "missed": [], "note": "no variant of this property applies to the current source"}
