"""Self-test of the checker (DESIGN §6): seeded variants of the *current* source, analysed
in memory, must each be reported by the intended rule; behaviour-preserving twins must stay
silent.  Filled in by hsa/variants.py; see run_selftest."""

from __future__ import annotations


def run_selftest(prop, A):
    try:
        from .variants import sweep
    except ImportError:
        return {"variants": 0, "caught": 0, "twins": 0, "silent": 0, "missed": [], "note": "variant sweep not built yet"}
    out = sweep(prop, A)
    from .variants import replay_seeded
    rs = replay_seeded(prop, A)
    out["seeded_replayed"] = rs["replayed"]
    out["seeded_reported"] = rs["reported"]
    out["seeded_not_applicable"] = rs["not_applicable"]
    out["missed"] = list(out.get("missed", [])) + rs["missed"]
    return out
