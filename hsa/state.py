"""Abstract state of the interpreter (A4 and friends): a product of small must / may sets."""

from __future__ import annotations

from .terms import MAXSET, AnalysisError

_FIELDS = (
    "env", "held_must", "held_may", "facts", "done", "gone", "pending", "probes",
    "lists", "iattrs", "muts", "handling", "tmps",
)


MAYBE_UNBOUND = "<maybe-unbound>"   # env key: names bound on some but not all of the paths joined so far


class Abort(Exception):
    """evaluation of the current statement cannot continue normally"""


class State:
    __slots__ = _FIELDS

    def __init__(self):
        self.env = {}                 # local name -> frozenset(term)           (may)
        self.held_must = frozenset()  # {(lockclass, key)}                      (must)
        self.held_may = frozenset()   # {(lockclass, key)}                      (may)
        self.facts = frozenset()      # {(formula, polarity)}                   (must)
        self.done = frozenset()       # things that happened on every path      (must)
        self.gone = frozenset()       # path terms renamed away / removed       (may)
        self.pending = frozenset()    # markers produced and not yet removed    (may)
        self.tmps = frozenset()       # temp names produced and not yet consumed (may)
        self.probes = frozenset()     # {(cls, key, frozenset(locks held))}     (must)
        self.lists = {}               # list id -> frozenset(term)              (may)
        self.iattrs = {}              # (instance term, attr) -> frozenset      (may)
        self.muts = frozenset()       # uids of mutating events so far          (may)
        self.handling = ()            # labels of the handlers being executed (dynamic)

    def copy(self):
        s = State.__new__(State)
        for f in _FIELDS:
            setattr(s, f, getattr(self, f))
        return s

    def set(self, **kw):
        s = self.copy()
        for k, v in kw.items():
            setattr(s, k, v)
        return s

    def bind(self, name, val):
        s = self.copy()
        e = dict(self.env)
        e[name] = val
        mu = e.get(MAYBE_UNBOUND)
        if mu and ("const", name) in mu:
            e[MAYBE_UNBOUND] = mu - {("const", name)}
        s.env = e
        return s

    def key(self):
        return (
            tuple(sorted((k, v) for k, v in self.env.items())).__hash__(),
            self.held_must, self.held_may, self.facts, self.done, self.gone, self.pending,
            self.probes, tuple(sorted(self.lists.items(), key=repr)).__hash__(),
            tuple(sorted(self.iattrs.items(), key=repr)).__hash__(), self.muts, self.tmps,
        )


def _union_map(a, b):
    if a is b:
        return a
    out = dict(a)
    for k, v in b.items():
        if k in out:
            u = out[k] | v
            if len(u) > 4 * MAXSET:
                raise AnalysisError(f"value set of {k!r} grew beyond {4 * MAXSET} terms")
            out[k] = u
        else:
            out[k] = v
    return out


def join(a: State | None, b: State | None) -> State | None:
    if a is None:
        return b
    if b is None:
        return a
    if a is b:
        return a
    s = State.__new__(State)
    s.env = _union_map(a.env, b.env)
    if a.env.keys() != b.env.keys():
        # a local bound on one of the joined paths only: it may be unbound from here on (until it is assigned again)
        odd = {k for k in a.env.keys() ^ b.env.keys() if isinstance(k, str) and not k.startswith("<")}
        if odd:
            s.env[MAYBE_UNBOUND] = s.env.get(MAYBE_UNBOUND, frozenset()) | frozenset(("const", k) for k in odd)
    s.held_must = a.held_must & b.held_must
    s.held_may = a.held_may | b.held_may
    s.facts = a.facts & b.facts
    s.done = a.done & b.done
    s.gone = a.gone | b.gone
    s.pending = a.pending | b.pending
    s.tmps = a.tmps | b.tmps
    s.probes = a.probes & b.probes
    s.lists = _union_map(a.lists, b.lists)
    s.iattrs = _union_map(a.iattrs, b.iattrs)
    s.muts = a.muts | b.muts
    s.handling = a.handling if len(a.handling) <= len(b.handling) else b.handling
    return s


RPART_CAP = 6


def guard_key(st):
    """the guard context of a state: its unit facts about file-system probes.  Raises from
    different guard contexts reach a handler as separate states, so that what a handler
    does can be judged per context (e.g. roll-back after a rejected vs. a new binding).  Boolean flag locals (`done = False
    ... done = True`) are part of the context: a handler that branches on such a flag meets each value separately."""
    flags = frozenset(("flag", k, next(iter(v))[1]) for k, v in st.env.items()
                      if isinstance(k, str) and len(v) == 1 and next(iter(v)) in (("const", True), ("const", False)))
    return frozenset((f, p) for f, p in st.facts if f[0] == "probe") | flags


class Out:
    """Outcome of executing a statement list."""

    __slots__ = ("normal", "ret", "retval", "raises", "brk", "cont", "parts", "forks", "rparts", "ends", "entry")

    def __init__(self, normal=None):
        self.normal = normal
        self.ret = None
        self.retval = frozenset()
        self.raises = {}
        self.brk = None
        self.cont = None
        self.ends = None    # the un-joined states at the end of a block (exec_block), for correlated continuation
        self.entry = None   # for the Out of a handler body: the state with which the handler was entered
        self.parts = {}     # "none" / "some" -> (state, values): returns partitioned by None-ness
        self.forks = None   # list of states when the statement forks (see Interp.st_Assign)
        self.rparts = {}    # label -> {guard-context key -> state}: raises kept apart per guard context

    def add_raise(self, label, st, key=None):
        if st is None:
            return
        self.raises[label] = join(self.raises.get(label), st)
        if key is None:
            key = guard_key(st)
        d = self.rparts.setdefault(label, {})
        if key not in d and len(d) >= RPART_CAP:
            key = "overflow"
        d[key] = join(d.get(key), st)

    def raise_states(self, label):
        d = self.rparts.get(label)
        if not d:
            return [self.raises[label]]
        return [d[k] for k in sorted(d, key=repr)]

    def add_return(self, st, val):
        if st is None:
            return
        self.ret = join(self.ret, st)
        self.retval = self.retval | val
        part = "none" if val and all(t == ("const", None) for t in val) else "some"
        old = self.parts.get(part)
        self.parts[part] = (join(old[0], st), old[1] | val) if old else (st, val)

    def ret_parts(self):
        return [self.parts[k] for k in sorted(self.parts)]

    def absorb(self, other: "Out"):
        """merge the non-normal outcomes of `other`"""
        for l in other.raises:
            d = other.rparts.get(l)
            if d:
                for k, s in d.items():
                    self.add_raise(l, s, k)
            else:
                self.add_raise(l, other.raises[l])
        for pst, pval in other.ret_parts():
            self.add_return(pst, pval)
        self.brk = join(self.brk, other.brk)
        self.cont = join(self.cont, other.cont)


class Event:
    __slots__ = (
        "kind", "prim", "paths", "classes", "func", "node", "line", "ctx", "entry", "mode",
        "held_must", "held_may", "facts", "done", "probes", "gone", "handling", "uid", "extra",
        "lists",
    )

    def __init__(self, **kw):
        for f in self.__slots__:
            setattr(self, f, kw.get(f))

    def cls_names(self, i=0):
        return {c.cls for c in self.classes[i]} if self.classes and len(self.classes) > i else set()

    def where(self):
        return f"{self.func.module.name}.py:{self.line} {self.func.qual}"

    def __repr__(self):
        return f"<Event {self.kind} {self.prim} {self.classes} @{self.where()} ctx={'>'.join(self.ctx)}>"
